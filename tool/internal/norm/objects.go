package norm

import (
	"fmt"
	"go/ast"
	"go/constant"
	"go/token"
	"go/types"
	"sort"
	"strings"

	"golang.org/x/tools/go/packages"
)

// Two source-level rewrites that undo "closure -> method value of a new struct type":
//
//  1. wrapMethodValue: a method value x.m of an unknown helper method (x a local variable or parameter that is
//     never re-assigned) becomes func(args) results { return x.m(args) }; the call inside is then inlined like any
//     other call of an unknown helper.
//  2. scalarReplace: a local variable of an unknown struct type (or a pointer to a fresh one) that is only ever used
//     through direct field selections is replaced by one local variable per field.
//
// Both preserve behaviour under the stated conditions; the result is type-checked before it is used.

type srcEdit struct {
	from, to int
	text     string
}

func applyEdits(src []byte, eds []srcEdit) []byte {
	sort.Slice(eds, func(i, j int) bool { return eds[i].from > eds[j].from })
	for _, e := range eds {
		src = append(append(append([]byte{}, src[:e.from]...), []byte(e.text)...), src[e.to:]...)
	}
	return src
}

// parents maps every node of a file to its parent.
func parents(f *ast.File) map[ast.Node]ast.Node {
	m := map[ast.Node]ast.Node{}
	var stack []ast.Node
	ast.Inspect(f, func(n ast.Node) bool {
		if n == nil {
			stack = stack[:len(stack)-1]
			return true
		}
		if len(stack) > 0 {
			m[n] = stack[len(stack)-1]
		}
		stack = append(stack, n)
		return true
	})
	return m
}

func enclosingFuncDecl(par map[ast.Node]ast.Node, n ast.Node) *ast.FuncDecl {
	for ; n != nil; n = par[n] {
		if fd, ok := n.(*ast.FuncDecl); ok {
			return fd
		}
	}
	return nil
}

// rootIdent strips selectors, indexing, dereferences and parentheses.
func rootIdent(e ast.Expr) *ast.Ident {
	for {
		switch x := e.(type) {
		case *ast.Ident:
			return x
		case *ast.SelectorExpr:
			e = x.X
		case *ast.IndexExpr:
			e = x.X
		case *ast.StarExpr:
			e = x.X
		case *ast.ParenExpr:
			e = x.X
		default:
			return nil
		}
	}
}

// stableVar: v is assigned only where it is declared, and its address is never taken (fields included when
// fieldsToo): reading it later gives what reading it now gives.
func stableVar(info *types.Info, fd *ast.FuncDecl, v *types.Var, fieldsToo bool) bool {
	ok := true
	refers := func(e ast.Expr, whole bool) bool {
		if whole {
			id, isID := e.(*ast.Ident)
			return isID && (info.Uses[id] == v)
		}
		id := rootIdent(e)
		return id != nil && info.Uses[id] == v
	}
	ast.Inspect(fd, func(n ast.Node) bool {
		switch x := n.(type) {
		case *ast.AssignStmt:
			for _, l := range x.Lhs {
				if refers(l, !fieldsToo) {
					ok = false
				}
			}
		case *ast.IncDecStmt:
			if refers(x.X, !fieldsToo) {
				ok = false
			}
		case *ast.UnaryExpr:
			if x.Op == token.AND && refers(x.X, !fieldsToo) {
				ok = false
			}
		case *ast.RangeStmt:
			if x.Key != nil && refers(x.Key, !fieldsToo) || x.Value != nil && refers(x.Value, !fieldsToo) {
				ok = false
			}
		}
		return ok
	})
	return ok
}

func qualifierFor(pkg *packages.Package, f *ast.File) (types.Qualifier, *bool) {
	bad := false
	imported := map[string]string{}
	for _, imp := range f.Imports {
		path := strings.Trim(imp.Path.Value, `"`)
		name := ""
		if imp.Name != nil {
			name = imp.Name.Name
		}
		imported[path] = name
	}
	return func(p *types.Package) string {
		if p == pkg.Types {
			return ""
		}
		n, ok := imported[p.Path()]
		if !ok || n == "." || n == "_" {
			bad = true
			return p.Name()
		}
		if n != "" {
			return n
		}
		return p.Name()
	}, &bad
}

// wrapMethodValue rewrites the first eligible method value of an unknown helper; it returns the file and its new
// content, or "" when there is none.
func wrapMethodValue(pkg *packages.Package, isHelper func(*types.Func) bool, content func(string) []byte, tried map[string]bool, counter *int) (string, []byte, string) {
	for _, f := range pkg.Syntax {
		fname := pkg.Fset.File(f.Pos()).Name()
		if strings.HasSuffix(fname, "_test.go") {
			continue
		}
		par := parents(f)
		var hit *ast.SelectorExpr
		ast.Inspect(f, func(n ast.Node) bool {
			if hit != nil {
				return false
			}
			se, ok := n.(*ast.SelectorExpr)
			if !ok {
				return true
			}
			sel := pkg.TypesInfo.Selections[se]
			if sel == nil || sel.Kind() != types.MethodVal {
				return true
			}
			fn, _ := sel.Obj().(*types.Func)
			if fn == nil || !isHelper(fn.Origin()) {
				return true
			}
			if ce, isCall := par[se].(*ast.CallExpr); isCall && ce.Fun == ast.Expr(se) {
				return true
			}
			key := fmt.Sprintf("mv:%s:%d", fname, pkg.Fset.Position(se.Pos()).Offset)
			if tried[key] {
				return true
			}
			tried[key] = true
			id, isID := se.X.(*ast.Ident)
			if !isID {
				return true
			}
			v, _ := pkg.TypesInfo.Uses[id].(*types.Var)
			fd := enclosingFuncDecl(par, se)
			if v == nil || v.IsField() || fd == nil || v.Parent() == pkg.Types.Scope() {
				return true
			}
			_, ptrRecv := fn.Type().(*types.Signature).Recv().Type().(*types.Pointer)
			_, ptrVar := v.Type().Underlying().(*types.Pointer)
			// a pointer receiver on a pointer variable binds the pointer: only the variable must be stable; every other
			// combination binds (a copy of, or the address of) the struct: its fields must not change either
			// ... except a pointer receiver on a struct variable: that binds the address of the variable, which is what a
			// later x.m() uses too, whatever happens to the variable's contents in between
			if !(ptrRecv && !ptrVar) && !stableVar(pkg.TypesInfo, fd, v, !(ptrRecv && ptrVar)) {
				return true
			}
			hit = se
			return false
		})
		if hit == nil {
			continue
		}
		sig, _ := pkg.TypesInfo.TypeOf(hit).(*types.Signature)
		if sig == nil {
			continue
		}
		q, bad := qualifierFor(pkg, f)
		*counter++
		var ps, as []string
		for i := 0; i < sig.Params().Len(); i++ {
			n := fmt.Sprintf("_mv%da%d", *counter, i)
			t := sig.Params().At(i).Type()
			if sig.Variadic() && i == sig.Params().Len()-1 {
				ps = append(ps, n+" ..."+types.TypeString(t.(*types.Slice).Elem(), q))
				as = append(as, n+"...")
			} else {
				ps = append(ps, n+" "+types.TypeString(t, q))
				as = append(as, n)
			}
		}
		var rs []string
		for i := 0; i < sig.Results().Len(); i++ {
			rs = append(rs, types.TypeString(sig.Results().At(i).Type(), q))
		}
		if *bad {
			continue
		}
		src := content(fname)
		from, to := pkg.Fset.Position(hit.Pos()).Offset, pkg.Fset.Position(hit.End()).Offset
		call := string(src[from:to]) + "(" + strings.Join(as, ", ") + ")"
		text := "func(" + strings.Join(ps, ", ") + ")"
		if len(rs) > 0 {
			text += " (" + strings.Join(rs, ", ") + ") { return " + call + " }"
		} else {
			text += " { " + call + " }"
		}
		// the same method called on the same receiver elsewhere in the function: one closure variable, declared right
		// after the receiver, serves the method value and those calls (the refactoring that is being undone turned one
		// closure into a method; inlining every use separately would duplicate its body)
		{
			recvID := hit.X.(*ast.Ident)
			recvObj := pkg.TypesInfo.Uses[recvID]
			fd := enclosingFuncDecl(par, hit)
			var others []*ast.SelectorExpr
			ast.Inspect(fd, func(n ast.Node) bool {
				se, ok := n.(*ast.SelectorExpr)
				if !ok || se == hit || se.Sel.Name != hit.Sel.Name {
					return true
				}
				if id, ok := se.X.(*ast.Ident); ok && pkg.TypesInfo.Uses[id] == recvObj {
					others = append(others, se)
				}
				return true
			})
			// where the receiver is declared: a statement of a statement list
			var declStmt ast.Stmt
			if len(others) > 0 {
				ast.Inspect(fd, func(n ast.Node) bool {
					switch x := n.(type) {
					case *ast.AssignStmt:
						if x.Tok == token.DEFINE {
							for _, l := range x.Lhs {
								if id, ok := l.(*ast.Ident); ok && pkg.TypesInfo.Defs[id] == recvObj {
									declStmt = x
								}
							}
						}
					case *ast.DeclStmt:
						if gd, ok := x.Decl.(*ast.GenDecl); ok {
							for _, sp := range gd.Specs {
								if vs, ok := sp.(*ast.ValueSpec); ok {
									for _, id := range vs.Names {
										if pkg.TypesInfo.Defs[id] == recvObj {
											declStmt = x
										}
									}
								}
							}
						}
					}
					return declStmt == nil
				})
			}
			if declStmt != nil {
				switch par[declStmt].(type) {
				case *ast.BlockStmt, *ast.CaseClause, *ast.CommClause:
					name := fmt.Sprintf("_mv%df", *counter)
					eds := []srcEdit{{from, to, name}}
					for _, o := range others {
						eds = append(eds, srcEdit{pkg.Fset.Position(o.Pos()).Offset, pkg.Fset.Position(o.End()).Offset, name})
					}
					end := pkg.Fset.Position(declStmt.End()).Offset
					eds = append(eds, srcEdit{end, end, "\n" + name + " := " + text + "\n_ = " + name + "\n"})
					out := applyEdits(append([]byte{}, src...), eds)
					return fname, out, fmt.Sprintf("bound the method value %s (%s:%d) and %d other use(s) of that method to one function literal", string(src[from:to]), shortName(fname), pkg.Fset.Position(hit.Pos()).Line, len(others))
				}
			}
		}
		out := applyEdits(append([]byte{}, src...), []srcEdit{{from, to, text}})
		return fname, out, fmt.Sprintf("wrapped the method value %s (%s:%d) in a function literal", string(src[from:to]), shortName(fname), pkg.Fset.Position(hit.Pos()).Line)
	}
	return "", nil, ""
}

// scalarReplace rewrites one eligible local struct variable; it returns the file and its new content, or "".
func scalarReplace(pkg *packages.Package, knownTypes map[string]bool, content func(string) []byte, tried map[string]bool) (string, []byte, string) {
	info := pkg.TypesInfo
	for _, f := range pkg.Syntax {
		fname := pkg.Fset.File(f.Pos()).Name()
		if strings.HasSuffix(fname, "_test.go") {
			continue
		}
		par := parents(f)
		off := func(p token.Pos) int { return pkg.Fset.Position(p).Offset }
		src := content(fname)
		text := func(n ast.Node) string { return string(src[off(n.Pos()):off(n.End())]) }
		// candidate declarations: v := T{...} / v := &T{...} / var v = ... directly in a statement list
		type cand struct {
			stmt ast.Stmt
			v    *types.Var
			lit  *ast.CompositeLit
			st   *types.Struct
			spec *ast.ValueSpec // set when the declaration is one spec of a var ( ... ) block
		}
		var cands []cand
		ast.Inspect(f, func(n ast.Node) bool {
			var name *ast.Ident
			var val ast.Expr
			var stmt ast.Stmt
			var inBlock *ast.ValueSpec
			var zeroOf *types.Named
			switch x := n.(type) {
			case *ast.AssignStmt:
				if x.Tok == token.DEFINE && len(x.Lhs) == 1 && len(x.Rhs) == 1 {
					name, _ = x.Lhs[0].(*ast.Ident)
					val, stmt = x.Rhs[0], x
				}
			case *ast.DeclStmt:
				if gd, ok := x.Decl.(*ast.GenDecl); ok && gd.Tok == token.VAR && len(gd.Specs) == 1 {
					if vs, ok := gd.Specs[0].(*ast.ValueSpec); ok && len(vs.Names) == 1 && len(vs.Values) == 1 && vs.Type == nil {
						name, val, stmt = vs.Names[0], vs.Values[0], x
					} else if ok && len(vs.Names) == 1 && len(vs.Values) == 0 && vs.Type != nil {
						// var v T: the zero value
						if nt, _ := info.TypeOf(vs.Type).(*types.Named); nt != nil && nt.Obj().Pkg() == pkg.Types && !knownTypes[nt.Obj().Name()] {
							if _, isSt := nt.Underlying().(*types.Struct); isSt {
								name, stmt, zeroOf = vs.Names[0], x, nt
							}
						}
					}
				} else if ok && gd.Tok == token.VAR && gd.Lparen.IsValid() {
					// one spec of a var ( ... ) block: replaced by specs, in place
					for _, sp := range gd.Specs {
						vs, ok := sp.(*ast.ValueSpec)
						if ok && len(vs.Names) == 1 && len(vs.Values) == 0 && vs.Type != nil && name == nil {
							// v T: the zero value
							if nt, _ := info.TypeOf(vs.Type).(*types.Named); nt != nil && nt.Obj().Pkg() == pkg.Types && !knownTypes[nt.Obj().Name()] && !tried[fmt.Sprintf("sra:%s:%d", fname, off(vs.Pos()))] {
								if _, isSt := nt.Underlying().(*types.Struct); isSt {
									name, stmt, inBlock, zeroOf = vs.Names[0], x, vs, nt
								}
							}
							continue
						}
						if !ok || len(vs.Names) != 1 || len(vs.Values) != 1 || vs.Type != nil || name != nil {
							continue
						}
						v0 := vs.Values[0]
						if u, isU := v0.(*ast.UnaryExpr); isU && u.Op == token.AND {
							v0 = u.X
						}
						if cl, isCL := v0.(*ast.CompositeLit); isCL {
							if nt, _ := info.TypeOf(cl).(*types.Named); nt != nil && nt.Obj().Pkg() == pkg.Types && !knownTypes[nt.Obj().Name()] && !tried[fmt.Sprintf("sra:%s:%d", fname, off(vs.Pos()))] {
								name, val, stmt = vs.Names[0], vs.Values[0], x
								inBlock = vs
							}
						}
					}
				}
			}
			if name == nil || name.Name == "_" {
				return true
			}
			switch par[stmt].(type) {
			case *ast.BlockStmt, *ast.CaseClause, *ast.CommClause:
			default:
				return true
			}
			if zeroOf != nil {
				if v, _ := info.Defs[name].(*types.Var); v != nil {
					cands = append(cands, cand{stmt, v, nil, zeroOf.Underlying().(*types.Struct), inBlock})
				}
				return true
			}
			for {
				if pe, ok := val.(*ast.ParenExpr); ok {
					val = pe.X
					continue
				}
				break
			}
			if u, ok := val.(*ast.UnaryExpr); ok && u.Op == token.AND {
				val = u.X
			}
			lit, ok := val.(*ast.CompositeLit)
			if !ok {
				return true
			}
			t := info.TypeOf(lit)
			named, _ := t.(*types.Named)
			if named == nil || named.Obj().Pkg() != pkg.Types || knownTypes[named.Obj().Name()] {
				return true
			}
			st, _ := named.Underlying().(*types.Struct)
			v, _ := info.Defs[name].(*types.Var)
			if st == nil || v == nil {
				return true
			}
			cands = append(cands, cand{stmt, v, lit, st, inBlock})
			return true
		})
		for _, c := range cands {
			key := fmt.Sprintf("sra:%s:%d", fname, off(c.stmt.Pos()))
			if c.spec != nil {
				key = fmt.Sprintf("sra:%s:%d", fname, off(c.spec.Pos()))
			}
			if tried[key] {
				continue
			}
			tried[key] = true
			// every use is a direct field selection
			okUses := true
			fieldType := map[string]types.Type{}
			var uses []*ast.SelectorExpr
			promoted := map[*ast.SelectorExpr]string{} // a field promoted from an embedded struct: the embedded field's name
			for id, obj := range info.Uses {
				if obj != types.Object(c.v) {
					continue
				}
				se, isSel := par[id].(*ast.SelectorExpr)
				if !isSel || se.X != ast.Expr(id) {
					okUses = false
					break
				}
				sel := info.Selections[se]
				if sel == nil || sel.Kind() != types.FieldVal {
					okUses = false
					break
				}
				if len(sel.Index()) > 1 {
					// v.f with f promoted from the embedded field E: the same as v.E.f
					emb := c.st.Field(sel.Index()[0])
					if !emb.Embedded() {
						okUses = false
						break
					}
					promoted[se] = emb.Name()
					fieldType[emb.Name()] = emb.Type()
					uses = append(uses, se)
					continue
				}
				fieldType[se.Sel.Name] = info.TypeOf(se)
				uses = append(uses, se)
			}
			if !okUses {
				continue
			}
			q, bad := qualifierFor(pkg, f)
			local := func(field string) string { return "_" + c.v.Name() + "_" + field }
			// initialisers in source order
			var decl strings.Builder
			inited := map[string]bool{}
			okLit := true
			var elts []ast.Expr
			if c.lit != nil {
				elts = c.lit.Elts
			}
			for i, el := range elts {
				fieldName := ""
				var val ast.Expr
				if kv, isKV := el.(*ast.KeyValueExpr); isKV {
					k, isID := kv.Key.(*ast.Ident)
					if !isID {
						okLit = false
						break
					}
					fieldName, val = k.Name, kv.Value
				} else {
					if i >= c.st.NumFields() {
						okLit = false
						break
					}
					fieldName, val = c.st.Field(i).Name(), el
				}
				inited[fieldName] = true
				ft, used := fieldType[fieldName]
				if !used {
					decl.WriteString("_ = " + text(val) + "\n")
					continue
				}
				if c.spec != nil {
					decl.WriteString(local(fieldName) + " " + types.TypeString(ft, q) + " = " + text(val) + "\n")
				} else if types.Identical(info.TypeOf(val), ft) {
					decl.WriteString(local(fieldName) + " := " + text(val) + "\n")
				} else {
					decl.WriteString("var " + local(fieldName) + " " + types.TypeString(ft, q) + " = " + text(val) + "\n")
				}
			}
			if !okLit {
				continue
			}
			var rest []string
			for fn := range fieldType {
				if !inited[fn] {
					rest = append(rest, fn)
				}
			}
			sort.Strings(rest)
			for _, fn := range rest {
				if c.spec != nil {
					decl.WriteString(local(fn) + " " + types.TypeString(fieldType[fn], q) + "\n")
				} else {
					decl.WriteString("var " + local(fn) + " " + types.TypeString(fieldType[fn], q) + "\n")
				}
			}
			if *bad {
				continue
			}
			eds := []srcEdit{{off(c.stmt.Pos()), off(c.stmt.End()), decl.String()}}
			if c.spec != nil {
				eds = []srcEdit{{off(c.spec.Pos()), off(c.spec.End()), decl.String()}}
			}
			for _, se := range uses {
				if emb, isProm := promoted[se]; isProm {
					eds = append(eds, srcEdit{off(se.X.Pos()), off(se.X.End()), local(emb)})
					continue
				}
				eds = append(eds, srcEdit{off(se.Pos()), off(se.End()), local(se.Sel.Name)})
			}
			out := applyEdits(append([]byte{}, src...), eds)
			tname := c.v.Type().String()
			if c.lit != nil {
				tname = types.TypeString(info.TypeOf(c.lit), q)
			}
			return fname, out, fmt.Sprintf("replaced the local %s of the unknown struct type %s (%s:%d) by one variable per field", c.v.Name(), tname, shortName(fname), pkg.Fset.Position(c.stmt.Pos()).Line)
		}
	}
	return "", nil, ""
}

// hoistLiteralReceiver: the method value T{...}.m / (&T{...}).m of an unknown helper, with a literal whose operands
// are values that never change (constants, never re-assigned local variables and parameters), gets its receiver
// evaluated into a fresh local variable in front of the statement it stands in; wrapMethodValue then applies.
func hoistLiteralReceiver(pkg *packages.Package, isHelper func(*types.Func) bool, content func(string) []byte, tried map[string]bool, counter *int) (string, []byte, string) {
	info := pkg.TypesInfo
	for _, f := range pkg.Syntax {
		fname := pkg.Fset.File(f.Pos()).Name()
		if strings.HasSuffix(fname, "_test.go") {
			continue
		}
		par := parents(f)
		off := func(p token.Pos) int { return pkg.Fset.Position(p).Offset }
		var hit *ast.SelectorExpr
		var hitStmt ast.Stmt
		ast.Inspect(f, func(n ast.Node) bool {
			if hit != nil {
				return false
			}
			se, ok := n.(*ast.SelectorExpr)
			if !ok {
				return true
			}
			sel := info.Selections[se]
			if sel == nil || sel.Kind() != types.MethodVal {
				return true
			}
			fn, _ := sel.Obj().(*types.Func)
			if fn == nil || !isHelper(fn.Origin()) {
				return true
			}
			if ce, isCall := par[se].(*ast.CallExpr); isCall && ce.Fun == ast.Expr(se) {
				return true
			}
			key := fmt.Sprintf("hoist:%s:%d", fname, off(se.Pos()))
			if tried[key] {
				return true
			}
			tried[key] = true
			x := se.X
			for {
				if p, isP := x.(*ast.ParenExpr); isP {
					x = p.X
					continue
				}
				break
			}
			if u, isU := x.(*ast.UnaryExpr); isU && u.Op == token.AND {
				x = u.X
			}
			var elts []ast.Expr
			if lit, isLit := x.(*ast.CompositeLit); isLit {
				elts = lit.Elts
			} else if conv, isCall := x.(*ast.CallExpr); isCall && len(conv.Args) == 1 && info.Types[conv.Fun].IsType() {
				// a conversion T(v) to the helper's receiver type
				elts = conv.Args
			} else {
				return true
			}
			fd := enclosingFuncDecl(par, se)
			if fd == nil {
				return true
			}
			// operands: constants and stable variables only
			pure := true
			var check func(e ast.Expr)
			check = func(e ast.Expr) {
				switch y := e.(type) {
				case *ast.BasicLit:
				case *ast.Ident:
					switch o := info.Uses[y].(type) {
					case *types.Const, *types.Nil:
					case *types.Var:
						if o.IsField() || o.Parent() == pkg.Types.Scope() || !stableVar(info, fd, o, false) {
							pure = false
						}
					case *types.Func:
					default:
						pure = false
					}
				case *ast.KeyValueExpr:
					check(y.Value)
				case *ast.ParenExpr:
					check(y.X)
				default:
					pure = false
				}
			}
			for _, el := range elts {
				check(el)
			}
			// the statement it stands in: directly in a statement list, nothing in between that repeats or delays evaluation
			var n2 ast.Node = se
			for n2 != nil {
				p := par[n2]
				if st, isStmt := n2.(ast.Stmt); isStmt {
					switch p.(type) {
					case *ast.BlockStmt, *ast.CaseClause, *ast.CommClause:
						// the first thing the statement evaluates may be anything; otherwise only values that cannot change
						first := false
						strip := func(e ast.Expr) ast.Expr {
							for {
								if p, isP := e.(*ast.ParenExpr); isP {
									e = p.X
									continue
								}
								return e
							}
						}
						switch y := st.(type) {
						case *ast.ReturnStmt:
							first = len(y.Results) > 0 && strip(y.Results[0]) == ast.Expr(se)
						case *ast.AssignStmt:
							first = len(y.Rhs) == 1 && strip(y.Rhs[0]) == ast.Expr(se)
							for _, l := range y.Lhs {
								if _, isID := l.(*ast.Ident); !isID {
									first = false
								}
							}
						}
						if !pure && !first {
							return true
						}
						switch st.(type) {
						case *ast.ReturnStmt, *ast.AssignStmt, *ast.ExprStmt, *ast.DeclStmt, *ast.GoStmt, *ast.DeferStmt, *ast.SendStmt:
							hit, hitStmt = se, st
						}
					}
					return true
				}
				if _, isFL := n2.(*ast.FuncLit); isFL {
					return true
				}
				n2 = p
			}
			return true
		})
		if hit == nil {
			continue
		}
		*counter++
		name := fmt.Sprintf("_mv%dr", *counter)
		src := content(fname)
		recv := string(src[off(hit.X.Pos()):off(hit.X.End())])
		eds := []srcEdit{
			{off(hit.X.Pos()), off(hit.X.End()), name},
			{off(hitStmt.Pos()), off(hitStmt.Pos()), name + " := " + recv + "\n"},
		}
		out := applyEdits(append([]byte{}, src...), eds)
		return fname, out, fmt.Sprintf("evaluated the literal receiver of the method value at %s:%d into a local variable", shortName(fname), pkg.Fset.Position(hit.Pos()).Line)
	}
	return "", nil, ""
}

// wrapFuncValue: a reference to an unknown helper function as a value (var f = helper; go-routine arguments; hooks)
// becomes a literal that calls it, so that the call can be inlined like any other.
func wrapFuncValue(pkg *packages.Package, isHelper func(*types.Func) bool, content func(string) []byte, tried map[string]bool, counter *int) (string, []byte, string) {
	for _, f := range pkg.Syntax {
		fname := pkg.Fset.File(f.Pos()).Name()
		if strings.HasSuffix(fname, "_test.go") {
			continue
		}
		par := parents(f)
		var hit *ast.Ident
		ast.Inspect(f, func(n ast.Node) bool {
			if hit != nil {
				return false
			}
			id, ok := n.(*ast.Ident)
			if !ok {
				return true
			}
			fn, _ := pkg.TypesInfo.Uses[id].(*types.Func)
			if fn == nil || !isHelper(fn.Origin()) || fn.Type().(*types.Signature).Recv() != nil {
				return true
			}
			switch p := par[id].(type) {
			case *ast.CallExpr:
				if p.Fun == ast.Expr(id) {
					return true
				}
			case *ast.SelectorExpr:
				return true
			case *ast.IndexExpr, *ast.IndexListExpr:
				return true // an instantiation
			}
			key := fmt.Sprintf("fv:%s:%d", fname, pkg.Fset.Position(id.Pos()).Offset)
			if tried[key] {
				return true
			}
			tried[key] = true
			hit = id
			return false
		})
		if hit == nil {
			continue
		}
		sig, _ := pkg.TypesInfo.TypeOf(hit).(*types.Signature)
		if sig == nil || sig.TypeParams().Len() > 0 {
			continue
		}
		q, bad := qualifierFor(pkg, f)
		*counter++
		var ps, as, rs []string
		for i := 0; i < sig.Params().Len(); i++ {
			n := fmt.Sprintf("_fv%da%d", *counter, i)
			t := sig.Params().At(i).Type()
			if sig.Variadic() && i == sig.Params().Len()-1 {
				ps = append(ps, n+" ..."+types.TypeString(t.(*types.Slice).Elem(), q))
				as = append(as, n+"...")
			} else {
				ps = append(ps, n+" "+types.TypeString(t, q))
				as = append(as, n)
			}
		}
		for i := 0; i < sig.Results().Len(); i++ {
			rs = append(rs, types.TypeString(sig.Results().At(i).Type(), q))
		}
		if *bad {
			continue
		}
		src := content(fname)
		from, to := pkg.Fset.Position(hit.Pos()).Offset, pkg.Fset.Position(hit.End()).Offset
		call := hit.Name + "(" + strings.Join(as, ", ") + ")"
		text := "func(" + strings.Join(ps, ", ") + ")"
		if len(rs) > 0 {
			text += " (" + strings.Join(rs, ", ") + ") { return " + call + " }"
		} else {
			text += " { " + call + " }"
		}
		out := applyEdits(append([]byte{}, src...), []srcEdit{{from, to, text}})
		return fname, out, fmt.Sprintf("wrapped the function value %s (%s:%d) in a function literal", hit.Name, shortName(fname), pkg.Fset.Position(hit.Pos()).Line)
	}
	return "", nil, ""
}

// foldConstIf replaces one `if <constant> {A} else {B}` (no init statement) by the branch that runs; inlining a
// helper that was called with a literal flag leaves such statements behind.
func foldConstIf(pkg *packages.Package, content func(string) []byte) (string, []byte, string) {
	for _, f := range pkg.Syntax {
		fname := pkg.Fset.File(f.Pos()).Name()
		if strings.HasSuffix(fname, "_test.go") {
			continue
		}
		off := func(p token.Pos) int { return pkg.Fset.Position(p).Offset }
		var hit *ast.IfStmt
		val := false
		ast.Inspect(f, func(n ast.Node) bool {
			if hit != nil {
				return false
			}
			is, ok := n.(*ast.IfStmt)
			if !ok || is.Init != nil {
				return true
			}
			tv, ok := pkg.TypesInfo.Types[is.Cond]
			if !ok || tv.Value == nil || tv.Value.Kind() != constant.Bool {
				return true
			}
			hit, val = is, constant.BoolVal(tv.Value)
			return false
		})
		if hit == nil {
			continue
		}
		src := content(fname)
		repl := "{}"
		if val {
			repl = string(src[off(hit.Body.Pos()):off(hit.Body.End())])
		} else if hit.Else != nil {
			repl = string(src[off(hit.Else.Pos()):off(hit.Else.End())])
		}
		out := applyEdits(append([]byte{}, src...), []srcEdit{{off(hit.Pos()), off(hit.End()), repl}})
		return fname, out, fmt.Sprintf("folded the constant condition at %s:%d", shortName(fname), pkg.Fset.Position(hit.Pos()).Line)
	}
	return "", nil, ""
}

// unNewtype: an unknown defined type with no methods (left) whose underlying type is not a struct or interface is
// replaced by that underlying type wherever it is named (`type state uint64` introduced to hang accessors on, which
// have been inlined by now). Values of such a type behave like values of the underlying type except for their
// dynamic type inside an interface; it is therefore refused when a value of the type is passed, assigned or returned
// as an interface, or the type is named in a type assertion or type switch.
func unNewtype(pkg *packages.Package, knownTypes map[string]bool, content func(string) []byte, tried map[string]bool) (string, map[string][]byte, string) {
	info := pkg.TypesInfo
	scope := pkg.Types.Scope()
	for _, n := range scope.Names() {
		tn, ok := scope.Lookup(n).(*types.TypeName)
		if !ok || tn.IsAlias() || knownTypes[n] || tried["nt:"+n] {
			continue
		}
		tried["nt:"+n] = true
		named, ok := tn.Type().(*types.Named)
		if !ok || named.NumMethods() != 0 || named.TypeParams().Len() != 0 {
			continue
		}
		switch named.Underlying().(type) {
		case *types.Struct, *types.Interface:
			continue
		}
		// the declaration (for the text of the underlying type)
		var spec *ast.TypeSpec
		var specFile *ast.File
		for _, f := range pkg.Syntax {
			ast.Inspect(f, func(nd ast.Node) bool {
				if ts, ok := nd.(*ast.TypeSpec); ok && info.Defs[ts.Name] == types.Object(tn) {
					spec, specFile = ts, f
				}
				return spec == nil
			})
		}
		if spec == nil || spec.TypeParams != nil {
			continue
		}
		sf := pkg.Fset.File(specFile.Pos()).Name()
		ssrc := content(sf)
		under := "(" + string(ssrc[pkg.Fset.Position(spec.Type.Pos()).Offset:pkg.Fset.Position(spec.Type.End()).Offset]) + ")"
		isT := func(t types.Type) bool { return t != nil && types.Identical(t, named) }
		isIface := func(t types.Type) bool {
			if t == nil {
				return false
			}
			_, ok := t.Underlying().(*types.Interface)
			return ok
		}
		refuse := false
		edits := map[string][]srcEdit{}
		for _, f := range pkg.Syntax {
			fname := pkg.Fset.File(f.Pos()).Name()
			if strings.HasSuffix(fname, "_test.go") {
				// a test that names the type keeps it alive
				ast.Inspect(f, func(nd ast.Node) bool {
					if id, ok := nd.(*ast.Ident); ok && info.Uses[id] == types.Object(tn) {
						refuse = true
					}
					return !refuse
				})
				continue
			}
			ast.Inspect(f, func(nd ast.Node) bool {
				switch x := nd.(type) {
				case *ast.TypeAssertExpr:
					if x.Type == nil || isT(info.TypeOf(x.Type)) {
						// a type switch guard, or an assertion to the type
						if x.Type != nil {
							refuse = true
						}
					}
				case *ast.CaseClause:
					for _, e := range x.List {
						if tv, ok := info.Types[e]; ok && tv.IsType() && isT(tv.Type) {
							refuse = true
						}
					}
				case *ast.CallExpr:
					if tv, ok := info.Types[x.Fun]; ok && tv.IsType() {
						if isIface(tv.Type) && len(x.Args) == 1 && isT(info.TypeOf(x.Args[0])) {
							refuse = true
						}
						break
					}
					if sig, ok := info.TypeOf(x.Fun).(*types.Signature); ok {
						for i, a := range x.Args {
							if !isT(info.TypeOf(a)) {
								continue
							}
							var pt types.Type
							if sig.Variadic() && i >= sig.Params().Len()-1 {
								pt = sig.Params().At(sig.Params().Len() - 1).Type().(*types.Slice).Elem()
							} else if i < sig.Params().Len() {
								pt = sig.Params().At(i).Type()
							}
							if isIface(pt) {
								refuse = true
							}
						}
					} else {
						// builtin (append, panic, print...): refuse if a value of the type is an operand
						for _, a := range x.Args {
							if isT(info.TypeOf(a)) {
								if id, ok := x.Fun.(*ast.Ident); ok && (id.Name == "panic" || id.Name == "print" || id.Name == "println" || id.Name == "append") {
									refuse = true
								}
							}
						}
					}
				case *ast.AssignStmt:
					for i, r := range x.Rhs {
						if i < len(x.Lhs) && isT(info.TypeOf(r)) && isIface(info.TypeOf(x.Lhs[i])) {
							refuse = true
						}
					}
				case *ast.ValueSpec:
					if x.Type != nil && isIface(info.TypeOf(x.Type)) {
						for _, v := range x.Values {
							if isT(info.TypeOf(v)) {
								refuse = true
							}
						}
					}
				case *ast.ReturnStmt:
					for _, r := range x.Results {
						if isT(info.TypeOf(r)) {
							// the enclosing function's result type is not at hand here: refuse only for interface-returning
							// functions, found through the parent chain below
							_ = r
						}
					}
				case *ast.SendStmt:
					if isT(info.TypeOf(x.Value)) {
						if ch, ok := info.TypeOf(x.Chan).Underlying().(*types.Chan); ok && isIface(ch.Elem()) {
							refuse = true
						}
					}
				case *ast.CompositeLit:
					for _, el := range x.Elts {
						v := el
						if kv, ok := el.(*ast.KeyValueExpr); ok {
							v = kv.Value
						}
						if isT(info.TypeOf(v)) {
							refuse = true // may be an interface-typed element or field: not worth telling apart
						}
					}
				case *ast.Ident:
					if info.Uses[x] == types.Object(tn) {
						edits[fname] = append(edits[fname], srcEdit{pkg.Fset.Position(x.Pos()).Offset, pkg.Fset.Position(x.End()).Offset, under})
					}
				}
				return !refuse
			})
		}
		// returns of interface-typed results
		for _, f := range pkg.Syntax {
			for _, d := range f.Decls {
				fd, ok := d.(*ast.FuncDecl)
				if !ok || fd.Body == nil {
					continue
				}
				var walk func(n ast.Node, sig *types.Signature)
				walk = func(n ast.Node, sig *types.Signature) {
					ast.Inspect(n, func(nd ast.Node) bool {
						switch x := nd.(type) {
						case *ast.FuncLit:
							if s2, ok := info.TypeOf(x).(*types.Signature); ok {
								walk(x.Body, s2)
							}
							return false
						case *ast.ReturnStmt:
							for i, r := range x.Results {
								if isT(info.TypeOf(r)) && sig != nil && i < sig.Results().Len() && isIface(sig.Results().At(i).Type()) {
									refuse = true
								}
							}
						}
						return true
					})
				}
				if obj, ok := info.Defs[fd.Name].(*types.Func); ok {
					walk(fd.Body, obj.Type().(*types.Signature))
				}
			}
		}
		if refuse || len(edits) == 0 {
			continue
		}
		out := map[string][]byte{}
		for fname, eds := range edits {
			out[fname] = applyEdits(append([]byte{}, content(fname)...), eds)
		}
		return n, out, fmt.Sprintf("replaced the unknown method-less type %s by its underlying type %s", n, under)
	}
	return "", nil, ""
}

// dropPointerAlias: a local p that is declared as &v (v a local variable) and only ever used through field
// selections p.f is v under another name: every p.f becomes v.f and the declaration goes (the shape the inliner gives
// the pointer receiver of an inlined method: `var p *T = &pending`).
func dropPointerAlias(pkg *packages.Package, content func(string) []byte, tried map[string]bool) (string, []byte, string) {
	info := pkg.TypesInfo
	for _, f := range pkg.Syntax {
		fname := pkg.Fset.File(f.Pos()).Name()
		if strings.HasSuffix(fname, "_test.go") {
			continue
		}
		par := parents(f)
		off := func(p token.Pos) int { return pkg.Fset.Position(p).Offset }
		type cand struct {
			p        *types.Var
			target   *ast.Ident
			from, to token.Pos
		}
		var cands []cand
		ast.Inspect(f, func(n ast.Node) bool {
			add := func(name *ast.Ident, val ast.Expr, from, to token.Pos) {
				u, ok := val.(*ast.UnaryExpr)
				if !ok || u.Op != token.AND {
					return
				}
				tid, ok := u.X.(*ast.Ident)
				if !ok {
					return
				}
				tv, _ := info.Uses[tid].(*types.Var)
				pv, _ := info.Defs[name].(*types.Var)
				if tv == nil || pv == nil || tv.IsField() || tv.Parent() == pkg.Types.Scope() {
					return
				}
				cands = append(cands, cand{pv, tid, from, to})
			}
			switch x := n.(type) {
			case *ast.AssignStmt:
				if x.Tok == token.DEFINE && len(x.Lhs) == 1 && len(x.Rhs) == 1 {
					if id, ok := x.Lhs[0].(*ast.Ident); ok {
						if _, isBlock := par[x].(*ast.BlockStmt); isBlock {
							add(id, x.Rhs[0], x.Pos(), x.End())
						}
					}
				}
			case *ast.DeclStmt:
				gd, ok := x.Decl.(*ast.GenDecl)
				if !ok || gd.Tok != token.VAR {
					return true
				}
				for _, sp := range gd.Specs {
					vs := sp.(*ast.ValueSpec)
					if len(vs.Names) == 1 && len(vs.Values) == 1 {
						from, to := vs.Pos(), vs.End()
						if len(gd.Specs) == 1 {
							from, to = x.Pos(), x.End()
						}
						add(vs.Names[0], vs.Values[0], from, to)
					}
				}
			}
			return true
		})
		for _, c := range cands {
			key := fmt.Sprintf("alias:%s:%d", fname, off(c.from))
			if tried[key] {
				continue
			}
			tried[key] = true
			var sels []*ast.SelectorExpr
			ok := true
			for id, o := range info.Uses {
				if o != types.Object(c.p) {
					continue
				}
				se, isSel := par[id].(*ast.SelectorExpr)
				if !isSel || se.X != ast.Expr(id) {
					ok = false
					break
				}
				if sel := info.Selections[se]; sel == nil || sel.Kind() != types.FieldVal {
					ok = false
					break
				}
				// the target's name must mean the same variable there
				if sc := pkg.Types.Scope().Innermost(id.Pos()); sc == nil {
					ok = false
					break
				} else if _, got := sc.LookupParent(c.target.Name, id.Pos()); got != info.Uses[c.target] {
					ok = false
					break
				}
				sels = append(sels, se)
			}
			if !ok || len(sels) == 0 {
				continue
			}
			eds := []srcEdit{{off(c.from), off(c.to), ""}}
			for _, se := range sels {
				eds = append(eds, srcEdit{off(se.X.Pos()), off(se.X.End()), c.target.Name})
			}
			out := applyEdits(append([]byte{}, content(fname)...), eds)
			return fname, out, fmt.Sprintf("the pointer alias %s of the local %s (%s:%d) is written as %s", c.p.Name(), c.target.Name, shortName(fname), pkg.Fset.Position(c.from).Line, c.target.Name)
		}
	}
	return "", nil, ""
}
