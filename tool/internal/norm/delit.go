package norm

import (
	"bytes"
	"fmt"
	"go/ast"
	"go/parser"
	"go/token"
	"os"
	"sort"
	"strings"

	"golang.org/x/tools/go/packages"
)

// De-literalisation. The inliner turns a helper whose body has several statements or early returns into an
// immediately invoked function literal:
//
//	n, ok := func() (int, bool) { if c { return 0, false }; ...; return v, true }()
//
// which is still a call. delit rewrites such a call, where it stands as a statement of its own (expression statement,
// single-call assignment / definition / var declaration / return, the leading operand of an if condition, the init of
// an if, the operand of a range), into plain statements of the enclosing function:
//
//	var r0 int; var r1 bool
//	{ L: switch { default: if c { r0, r1 = 0, false; break L }; ...; r0, r1 = v, true; break L } }
//	n, ok := r0, r1
//
// Parameters are bound by one parallel definition of converted arguments (evaluated before any of them is in scope),
// named results become local variables, every return of the literal (not of functions nested in it) becomes
// assign-and-break. That is behaviour-preserving unless the literal defers, recovers, declares labels or is variadic,
// in which case it is left alone. Literals that are already in the files on disk are never touched.

type delitState struct {
	n     int
	notes []string
	// names of library functions and methods that can reach an explicit panic (by bare name; see mayPanicNames)
	mayPanic map[string]bool
}

// mayPanicNames: the bare names of the functions and methods of the library (overlay applied) whose body contains an
// explicit panic or calls - by name - a function or method in the set. Purely syntactic and conservative: a name
// clash only makes un-deferring (below) refuse more often.
func mayPanicNames(files []string, overlay map[string][]byte) map[string]bool {
	type fnInfo struct {
		name  string
		calls map[string]bool
		pan   bool
	}
	var fns []*fnInfo
	fset := token.NewFileSet()
	for _, fn := range files {
		var src any
		if b, ok := overlay[fn]; ok {
			src = b
		}
		f, err := parser.ParseFile(fset, fn, src, parser.SkipObjectResolution)
		if err != nil {
			continue
		}
		for _, d := range f.Decls {
			fd, ok := d.(*ast.FuncDecl)
			if !ok || fd.Body == nil {
				continue
			}
			fi := &fnInfo{name: fd.Name.Name, calls: map[string]bool{}}
			ast.Inspect(fd.Body, func(n ast.Node) bool {
				if ce, ok := n.(*ast.CallExpr); ok {
					switch x := ce.Fun.(type) {
					case *ast.Ident:
						if x.Name == "panic" {
							fi.pan = true
						}
						fi.calls[x.Name] = true
					case *ast.SelectorExpr:
						fi.calls[x.Sel.Name] = true
					case *ast.IndexExpr:
						if id, ok := x.X.(*ast.Ident); ok {
							fi.calls[id.Name] = true
						}
					}
				}
				return true
			})
			fns = append(fns, fi)
		}
	}
	set := map[string]bool{}
	for changed := true; changed; {
		changed = false
		for _, fi := range fns {
			if set[fi.name] {
				continue
			}
			hit := fi.pan
			for c := range fi.calls {
				if set[c] {
					hit = true
				}
			}
			if hit {
				set[fi.name] = true
				changed = true
			}
		}
	}
	return set
}

// iifeTexts collects the source text of every immediately invoked function literal of a file.
func iifeTexts(src []byte, into map[string]bool) {
	fset := token.NewFileSet()
	f, err := parser.ParseFile(fset, "x.go", src, parser.SkipObjectResolution)
	if err != nil {
		return
	}
	off := func(p token.Pos) int { return fset.Position(p).Offset }
	ast.Inspect(f, func(n ast.Node) bool {
		if ce, ok := n.(*ast.CallExpr); ok {
			if fl, ok := ce.Fun.(*ast.FuncLit); ok {
				into[squash(src[off(fl.Pos()):off(fl.End())])] = true
			}
		}
		return true
	})
}

func squash(b []byte) string { return strings.Join(strings.Fields(string(b)), " ") }

// delitFile rewrites the new immediately invoked literals of one file until none is left that can be rewritten.
func (st *delitState) delitFile(fname string, src []byte, original map[string]bool) []byte {
	skip := map[string]bool{}
	for iter := 0; iter < 200; iter++ {
		out, changed := st.delitOnce(fname, src, original, skip)
		if !changed {
			return src
		}
		// the result must parse; otherwise keep what we had
		if _, err := parser.ParseFile(token.NewFileSet(), fname, out, parser.SkipObjectResolution); err != nil {
			st.notes = append(st.notes, "de-literalisation produced unparsable code, undone: "+err.Error())
			return src
		}
		src = out
	}
	return src
}

type stackEntry struct{ n ast.Node }

func (st *delitState) delitOnce(fname string, src []byte, original, skip map[string]bool) ([]byte, bool) {
	fset := token.NewFileSet()
	f, err := parser.ParseFile(fset, fname, src, parser.SkipObjectResolution|parser.ParseComments)
	if err != nil {
		return src, false
	}
	off := func(p token.Pos) int { return fset.Position(p).Offset }
	text := func(n ast.Node) string { return string(src[off(n.Pos()):off(n.End())]) }

	// find: a statement that stands in a statement list (or is the else branch of an if) with an eligible IIFE
	type found struct {
		stmt ast.Stmt // the statement to replace
		call *ast.CallExpr
		kind string
	}
	var hit *found
	isIIFE := func(e ast.Expr) *ast.CallExpr {
		for {
			if p, ok := e.(*ast.ParenExpr); ok {
				e = p.X
				continue
			}
			break
		}
		ce, ok := e.(*ast.CallExpr)
		if !ok {
			return nil
		}
		fl, ok := ce.Fun.(*ast.FuncLit)
		if !ok {
			return nil
		}
		key := squash(src[off(fl.Pos()):off(fl.End())])
		if original[key] || skip[key] || hasOrigMarker(fl) {
			return nil
		}
		return ce
	}
	// leftmost evaluated operand of a condition
	var leftmost func(e ast.Expr) ast.Expr
	leftmost = func(e ast.Expr) ast.Expr {
		switch x := e.(type) {
		case *ast.ParenExpr:
			return leftmost(x.X)
		case *ast.UnaryExpr:
			if x.Op == token.NOT || x.Op == token.SUB || x.Op == token.ADD || x.Op == token.XOR {
				return leftmost(x.X)
			}
		case *ast.BinaryExpr:
			return leftmost(x.X)
		}
		return e
	}
	consider := func(s ast.Stmt, labeled bool) {
		if hit != nil {
			return
		}
		switch x := s.(type) {
		case *ast.ExprStmt:
			if ce := isIIFE(x.X); ce != nil {
				hit = &found{s, ce, "expr"}
			}
		case *ast.AssignStmt:
			if len(x.Rhs) == 1 && (x.Tok == token.ASSIGN || x.Tok == token.DEFINE) {
				if ce := isIIFE(x.Rhs[0]); ce != nil {
					hit = &found{s, ce, "assign"}
				}
			}
		case *ast.DeclStmt:
			if gd, ok := x.Decl.(*ast.GenDecl); ok && gd.Tok == token.VAR && len(gd.Specs) == 1 {
				if vs, ok := gd.Specs[0].(*ast.ValueSpec); ok && len(vs.Values) == 1 {
					if ce := isIIFE(vs.Values[0]); ce != nil {
						hit = &found{s, ce, "var"}
					}
				}
			}
		case *ast.ReturnStmt:
			if len(x.Results) == 1 {
				if ce := isIIFE(x.Results[0]); ce != nil {
					hit = &found{s, ce, "return"}
				} else if be, ok := x.Results[0].(*ast.BinaryExpr); ok && (be.Op == token.LAND || be.Op == token.LOR) {
					// return A && helper(): decide A first, then the helper's statements
					if ce := isIIFE(be.Y); ce != nil {
						hit = &found{s, ce, "return" + be.Op.String()}
					}
				}
			}
		}
		if hit == nil {
			// the literal call as a direct argument of the statement's (only) call: f(a, func() T {...}(), b), when the other
			// operands are plain names and constants that the literal does not assign
			var outer *ast.CallExpr
			switch x := s.(type) {
			case *ast.ExprStmt:
				outer, _ = x.X.(*ast.CallExpr)
			case *ast.ReturnStmt:
				if len(x.Results) == 1 {
					outer, _ = x.Results[0].(*ast.CallExpr)
				}
			case *ast.AssignStmt:
				if len(x.Rhs) == 1 {
					outer, _ = x.Rhs[0].(*ast.CallExpr)
					for _, l := range x.Lhs {
						if _, isID := l.(*ast.Ident); !isID {
							outer = nil
						}
					}
				}
			}
			if outer != nil && !outer.Ellipsis.IsValid() {
				var inner *ast.CallExpr
				names := map[string]bool{}
				plain := true
				var isPlain func(e ast.Expr) bool
				isPlain = func(e ast.Expr) bool {
					switch y := e.(type) {
					case *ast.Ident:
						names[y.Name] = true
						return true
					case *ast.BasicLit:
						return true
					case *ast.SelectorExpr:
						return isPlain(y.X)
					case *ast.ParenExpr:
						return isPlain(y.X)
					}
					return false
				}
				if !isPlain(outer.Fun) {
					plain = false
				}
				for _, a := range outer.Args {
					if ce := isIIFE(a); ce != nil && inner == nil {
						inner = ce
						continue
					}
					if !isPlain(a) {
						plain = false
					}
				}
				if inner != nil && plain {
					// nothing the literal assigns is named outside it
					clash := false
					ast.Inspect(inner.Fun.(*ast.FuncLit).Body, func(n ast.Node) bool {
						switch y := n.(type) {
						case *ast.AssignStmt:
							for _, l := range y.Lhs {
								if id := rootIdentOf(l); id != nil && names[id.Name] && y.Tok != token.DEFINE {
									clash = true
								}
							}
						case *ast.IncDecStmt:
							if id := rootIdentOf(y.X); id != nil && names[id.Name] {
								clash = true
							}
						case *ast.UnaryExpr:
							if y.Op == token.AND {
								if id := rootIdentOf(y.X); id != nil && names[id.Name] {
									clash = true
								}
							}
						}
						return true
					})
					if !clash {
						hit = &found{s, inner, "arg"}
					}
				}
			}
		}
		if hit != nil {
			return
		}
		switch x := s.(type) {
		case *ast.IfStmt:
			if labeled {
				return
			}
			if x.Init != nil {
				if as, ok := x.Init.(*ast.AssignStmt); ok && len(as.Rhs) == 1 && (as.Tok == token.ASSIGN || as.Tok == token.DEFINE) {
					if ce := isIIFE(as.Rhs[0]); ce != nil {
						hit = &found{s, ce, "ifinit"}
					}
				}
				return
			}
			if ce := isIIFE(leftmost(x.Cond)); ce != nil {
				hit = &found{s, ce, "ifcond"}
			}
		case *ast.RangeStmt:
			if labeled {
				return
			}
			if ce := isIIFE(x.X); ce != nil {
				hit = &found{s, ce, "range"}
			}
		}
	}
	var walkList func(list []ast.Stmt)
	var walkStmt func(s ast.Stmt)
	walkList = func(list []ast.Stmt) {
		for _, s := range list {
			if hit != nil {
				return
			}
			if ls, ok := s.(*ast.LabeledStmt); ok {
				consider(ls.Stmt, true)
				walkStmt(ls.Stmt)
				continue
			}
			consider(s, false)
			walkStmt(s)
		}
	}
	walkStmt = func(s ast.Stmt) {
		if hit != nil || s == nil {
			return
		}
		// descend into nested statement lists and function literals (innermost first is not required: one rewrite per pass)
		ast.Inspect(s, func(n ast.Node) bool {
			if hit != nil {
				return false
			}
			switch x := n.(type) {
			case *ast.BlockStmt:
				if x != nil {
					walkList(x.List)
				}
				return false
			case *ast.CaseClause:
				walkList(x.Body)
				return false
			case *ast.CommClause:
				walkList(x.Body)
				return false
			case *ast.IfStmt:
				if n != ast.Node(s) {
					// an else-if: eligible in its own right (the replacement is a block)
					consider(x, false)
				}
				return true
			}
			return true
		})
	}
	// a function whose whole body is one call of a parameterless literal (the shape a wrapped and inlined function
	// value takes) is that literal's body - deferred calls included: they run when the literal returns, which is when
	// the function returns
	{
		var outerBody *ast.BlockStmt
		var innerLit *ast.FuncLit
		tail := func(ft *ast.FuncType, body *ast.BlockStmt) {
			if outerBody != nil || body == nil || len(body.List) != 1 {
				return
			}
			var ce *ast.CallExpr
			switch x := body.List[0].(type) {
			case *ast.ExprStmt:
				ce = isIIFE(x.X)
				if ce != nil && ce.Fun.(*ast.FuncLit).Type.Results != nil && len(ce.Fun.(*ast.FuncLit).Type.Results.List) > 0 {
					ce = nil
				}
			case *ast.ReturnStmt:
				if len(x.Results) == 1 {
					ce = isIIFE(x.Results[0])
				}
				if ce != nil {
					// results: unnamed on both sides (a bare return or a deferred update of a named result would differ)
					for _, fl := range []*ast.FieldList{ft.Results, ce.Fun.(*ast.FuncLit).Type.Results} {
						if fl == nil {
							ce = nil
							break
						}
						for _, fld := range fl.List {
							if len(fld.Names) > 0 {
								ce = nil
							}
						}
						if ce == nil {
							break
						}
					}
				}
			}
			if ce == nil || len(ce.Args) != 0 {
				return
			}
			fl := ce.Fun.(*ast.FuncLit)
			if fl.Type.Params != nil && len(fl.Type.Params.List) > 0 {
				return
			}
			outerBody, innerLit = body, fl
		}
		ast.Inspect(f, func(n ast.Node) bool {
			switch x := n.(type) {
			case *ast.FuncDecl:
				tail(x.Type, x.Body)
			case *ast.FuncLit:
				tail(x.Type, x.Body)
			}
			return outerBody == nil
		})
		if outerBody != nil {
			inner := src[off(innerLit.Body.Lbrace)+1 : off(innerLit.Body.Rbrace)]
			out := append(append(append([]byte{}, src[:off(outerBody.Lbrace)+1]...), inner...), src[off(outerBody.Rbrace):]...)
			st.notes = append(st.notes, fmt.Sprintf("replaced the body of the function at %s:%d by the literal it consisted of", shortName(fname), fset.Position(outerBody.Pos()).Line))
			return out, true
		}
	}
	for _, d := range f.Decls {
		if fd, ok := d.(*ast.FuncDecl); ok && fd.Body != nil {
			walkList(fd.Body.List)
		}
		if gd, ok := d.(*ast.GenDecl); ok {
			// function literals in package-level initialisers
			ast.Inspect(gd, func(n ast.Node) bool {
				if fl, ok := n.(*ast.FuncLit); ok && hit == nil {
					walkList(fl.Body.List)
					return false
				}
				return hit == nil
			})
		}
		if hit != nil {
			break
		}
	}
	if hit == nil {
		return src, false
	}
	fl := hit.call.Fun.(*ast.FuncLit)
	key := squash(src[off(fl.Pos()):off(fl.End())])
	bail := func(why string) ([]byte, bool) {
		skip[key] = true
		st.notes = append(st.notes, "function literal left in place ("+why+")")
		return src, true // try the next one
	}
	// eligibility
	if hit.call.Ellipsis.IsValid() {
		return bail("spread call")
	}
	var params []*ast.Field
	if fl.Type.Params != nil {
		params = fl.Type.Params.List
	}
	type pv struct{ name, typ string }
	var ps []pv
	for _, fld := range params {
		if _, isEll := fld.Type.(*ast.Ellipsis); isEll {
			return bail("variadic")
		}
		if len(fld.Names) == 0 {
			ps = append(ps, pv{"_", text(fld.Type)})
		}
		for _, nm := range fld.Names {
			ps = append(ps, pv{nm.Name, text(fld.Type)})
		}
	}
	if len(ps) != len(hit.call.Args) {
		return bail("argument count")
	}
	var rs []pv
	if fl.Type.Results != nil {
		for _, fld := range fl.Type.Results.List {
			if len(fld.Names) == 0 {
				rs = append(rs, pv{"", text(fld.Type)})
			}
			for _, nm := range fld.Names {
				rs = append(rs, pv{nm.Name, text(fld.Type)})
			}
		}
	}
	bad := ""
	var rets []*ast.ReturnStmt
	// deferred calls that can be run at the exits instead (see undefer below)
	topDefer := map[*ast.DeferStmt]bool{}
	for _, s := range fl.Body.List {
		if d, ok := s.(*ast.DeferStmt); ok {
			topDefer[d] = true
		}
	}
	var defers []*ast.DeferStmt
	panics := false
	assigned := map[string]bool{}
	ast.Inspect(fl.Body, func(n ast.Node) bool {
		switch x := n.(type) {
		case *ast.FuncLit:
			// a nested literal: its returns are its own; but a recover inside a deferred nested literal needs a defer here,
			// which is refused anyway
			if bytes.Contains(src[off(x.Pos()):off(x.End())], []byte("recover()")) {
				bad = "recover"
			}
			return false
		case *ast.AssignStmt:
			if x.Tok != token.DEFINE {
				for _, l := range x.Lhs {
					if id, ok := l.(*ast.Ident); ok {
						assigned[id.Name] = true
					}
				}
			}
		case *ast.DeferStmt:
			if topDefer[x] && undeferable(x) {
				defers = append(defers, x)
			} else {
				bad = "defer"
			}
		case *ast.LabeledStmt:
			bad = "label"
		case *ast.BranchStmt:
			if x.Tok == token.GOTO {
				bad = "goto"
			}
		case *ast.CallExpr:
			if id, ok := x.Fun.(*ast.Ident); ok && id.Name == "recover" {
				bad = "recover"
			}
			if id, ok := x.Fun.(*ast.Ident); ok && (id.Name == "panic" || st.mayPanic[id.Name]) {
				panics = true
			}
			if se, ok := x.Fun.(*ast.SelectorExpr); ok && st.mayPanic[se.Sel.Name] {
				panics = true
			}
		case *ast.ReturnStmt:
			rets = append(rets, x)
		}
		return true
	})
	if bad != "" {
		return bail(bad)
	}
	// undefer: `defer x.m()` statements at the top level of the literal, all of them executed before any return
	// statement is reached, run after the results are evaluated on every way out - which is what writing the call
	// before each exit does, as long as nothing panics in between (an explicit panic is refused; results are unnamed, so
	// a deferred call cannot change them).
	if len(defers) > 0 {
		if panics {
			return bail("defer protecting a call that can panic")
		}
		last := defers[len(defers)-1]
		for _, r := range rets {
			if r.Pos() < last.End() {
				return bail("defer after a return")
			}
		}
		for _, r := range rs {
			if r.name != "" {
				return bail("defer with named results")
			}
		}
		for _, d := range defers {
			if id := rootIdentOf(d.Call.Fun); id != nil && assigned[id.Name] {
				return bail("defer of a reassigned receiver")
			}
		}
	}
	deferred := ""
	for i := len(defers) - 1; i >= 0; i-- {
		deferred += text(defers[i].Call) + "; "
	}
	for _, r := range rets {
		if len(r.Results) != 0 && len(r.Results) != len(rs) {
			return bail("return of a multi-value call")
		}
		if len(r.Results) == 0 && len(rs) != 0 && rs[0].name == "" {
			return bail("bare return")
		}
	}
	// context-specific arity checks
	switch hit.kind {
	case "assign", "ifinit":
		var as *ast.AssignStmt
		if hit.kind == "assign" {
			as = hit.stmt.(*ast.AssignStmt)
		} else {
			as = hit.stmt.(*ast.IfStmt).Init.(*ast.AssignStmt)
		}
		if len(as.Lhs) != len(rs) {
			return bail("assignment arity")
		}
	case "var":
		vs := hit.stmt.(*ast.DeclStmt).Decl.(*ast.GenDecl).Specs[0].(*ast.ValueSpec)
		if len(vs.Names) != len(rs) {
			return bail("declaration arity")
		}
	case "ifcond", "range", "arg":
		if len(rs) != 1 {
			return bail("single value expected")
		}
	case "return":
		if len(rs) == 0 {
			return bail("return of nothing")
		}
	case "return&&", "return||":
		if len(rs) != 1 {
			return bail("single value expected")
		}
	}
	st.n++
	id := fmt.Sprintf("_inl%d", st.n)
	// the body with its returns rewritten
	type edit struct {
		from, to int
		text     string
	}
	var eds []edit
	resName := func(i int) string { return fmt.Sprintf("%sr%d", id, i) }
	inner := func(i int) string {
		if rs[i].name != "" && rs[i].name != "_" {
			return rs[i].name
		}
		return resName(i)
	}
	for _, r := range rets {
		var b strings.Builder
		b.WriteString("{ ")
		if len(r.Results) > 0 {
			var l, rr []string
			for i, e := range r.Results {
				l = append(l, inner(i))
				rr = append(rr, text(e))
			}
			b.WriteString(strings.Join(l, ", ") + " = " + strings.Join(rr, ", ") + "; ")
		}
		b.WriteString(deferred)
		b.WriteString("break " + id + " }")
		eds = append(eds, edit{off(r.Pos()), off(r.End()), b.String()})
	}
	for _, d := range defers {
		eds = append(eds, edit{off(d.Pos()), off(d.End()), ""})
	}
	fallOff := ""
	if len(defers) > 0 {
		if n := len(fl.Body.List); n > 0 {
			if _, isRet := fl.Body.List[n-1].(*ast.ReturnStmt); !isRet {
				fallOff = "\n" + deferred
			}
		}
	}
	sort.Slice(eds, func(i, j int) bool { return eds[i].from > eds[j].from })
	bodyFrom, bodyTo := off(fl.Body.Lbrace)+1, off(fl.Body.Rbrace)
	body := append([]byte{}, src[bodyFrom:bodyTo]...)
	for _, e := range eds {
		body = append(append(append([]byte{}, body[:e.from-bodyFrom]...), []byte(e.text)...), body[e.to-bodyFrom:]...)
	}
	var pre, blk, post strings.Builder
	// result temporaries (outside the block: read afterwards)
	for i, r := range rs {
		pre.WriteString(fmt.Sprintf("var %s %s\n", resName(i), r.typ))
	}
	blk.WriteString("{\n")
	if len(ps) > 0 {
		var l, r []string
		for i, p := range ps {
			n := p.name
			if n == "_" {
				n = fmt.Sprintf("%sp%d", id, i)
			}
			l = append(l, n)
			r = append(r, "("+p.typ+")("+text(hit.call.Args[i])+")")
		}
		blk.WriteString(strings.Join(l, ", ") + " := " + strings.Join(r, ", ") + "\n")
		blk.WriteString(strings.Repeat("_, ", len(l)-1) + "_ = " + strings.Join(l, ", ") + "\n")
	}
	named := false
	for i, r := range rs {
		if r.name != "" && r.name != "_" {
			blk.WriteString(fmt.Sprintf("var %s %s\n", r.name, r.typ))
			named = true
			_ = i
		}
	}
	if len(rets) == 0 {
		// nothing jumps out: a plain block (an unused label does not compile)
		blk.WriteString("{\n")
	} else {
		blk.WriteString(id + ":\nswitch {\ndefault:\n")
	}
	blk.Write(body)
	blk.WriteString(fallOff)
	blk.WriteString("\n}\n")
	if named {
		// a bare return (or falling off the end is impossible with results) leaves the values in the named results
		var l, r []string
		for i, x := range rs {
			if x.name != "" && x.name != "_" {
				l = append(l, resName(i))
				r = append(r, x.name)
			}
		}
		// only for the paths that ended with a bare return; returns with values assigned the named results as well
		blk.WriteString(strings.Join(l, ", ") + " = " + strings.Join(r, ", ") + "\n")
	}
	blk.WriteString("}\n")
	var temps []string
	for i := range rs {
		temps = append(temps, resName(i))
	}
	tl := strings.Join(temps, ", ")
	wrap := false
	pre0 := ""
	switch hit.kind {
	case "expr":
		wrap = true
		if len(temps) > 0 {
			post.WriteString(strings.Repeat("_, ", len(temps)-1) + "_ = " + tl + "\n")
		}
	case "assign":
		as := hit.stmt.(*ast.AssignStmt)
		var l []string
		for _, e := range as.Lhs {
			l = append(l, text(e))
		}
		post.WriteString(strings.Join(l, ", ") + " " + as.Tok.String() + " " + tl + "\n")
	case "var":
		vs := hit.stmt.(*ast.DeclStmt).Decl.(*ast.GenDecl).Specs[0].(*ast.ValueSpec)
		var l []string
		for _, e := range vs.Names {
			l = append(l, e.Name)
		}
		t := ""
		if vs.Type != nil {
			t = " " + text(vs.Type)
		}
		post.WriteString("var " + strings.Join(l, ", ") + t + " = " + tl + "\n")
	case "return":
		post.WriteString("return " + tl + "\n")
	case "return&&", "return||":
		be := hit.stmt.(*ast.ReturnStmt).Results[0].(*ast.BinaryExpr)
		if hit.kind == "return&&" {
			pre0 = "if !(" + text(be.X) + ") {\nreturn false\n}\n"
		} else {
			pre0 = "if " + text(be.X) + " {\nreturn true\n}\n"
		}
		post.WriteString("return " + tl + "\n")
	case "ifinit":
		wrap = true
		ifs := hit.stmt.(*ast.IfStmt)
		as := ifs.Init.(*ast.AssignStmt)
		var l []string
		for _, e := range as.Lhs {
			l = append(l, text(e))
		}
		post.WriteString(strings.Join(l, ", ") + " " + as.Tok.String() + " " + tl + "\n")
		post.WriteString("if " + string(src[off(ifs.Cond.Pos()):off(ifs.End())]) + "\n")
	case "ifcond":
		wrap = true
		ifs := hit.stmt.(*ast.IfStmt)
		// replace the call inside the condition by the temporary
		cond := string(src[off(ifs.Cond.Pos()):off(hit.call.Pos())]) + temps[0] + string(src[off(hit.call.End()):off(ifs.End())])
		post.WriteString("if " + cond + "\n")
	case "arg":
		wrap = true
		if as, isAs := hit.stmt.(*ast.AssignStmt); isAs && as.Tok == token.DEFINE {
			wrap = false // the defined names must stay visible
		}
		post.WriteString(string(src[off(hit.stmt.Pos()):off(hit.call.Pos())]) + temps[0] + string(src[off(hit.call.End()):off(hit.stmt.End())]) + "\n")
	case "range":
		wrap = true
		r := hit.stmt.(*ast.RangeStmt)
		post.WriteString(string(src[off(r.Pos()):off(hit.call.Pos())]) + temps[0] + string(src[off(hit.call.End()):off(r.End())]) + "\n")
	}
	var repl bytes.Buffer
	if wrap {
		repl.WriteString("{\n")
	}
	repl.WriteString(pre0)
	repl.WriteString(pre.String())
	repl.WriteString(blk.String())
	repl.WriteString(post.String())
	if wrap {
		repl.WriteString("}")
	}
	from, to := off(hit.stmt.Pos()), off(hit.stmt.End())
	out := append(append(append([]byte{}, src[:from]...), repl.Bytes()...), src[to:]...)
	st.notes = append(st.notes, fmt.Sprintf("turned the function literal called at %s:%d into statements of its caller", shortName(fname), fset.Position(hit.call.Pos()).Line))
	return out, true
}

func shortName(f string) string {
	if i := strings.LastIndex(f, "/"); i >= 0 {
		return f[i+1:]
	}
	return f
}

// delitOverlay applies the rewriting to every file of the overlay; the result is kept only if the package still
// type-checks with it.
func delitOverlay(dir string, overlay map[string][]byte, env []string) (map[string][]byte, []string) {
	files, err := libFiles(dir)
	if err != nil {
		return overlay, nil
	}
	original := map[string]bool{}
	for _, fn := range files {
		if b, err := os.ReadFile(fn); err == nil {
			iifeTexts(b, original)
		}
	}
	st := &delitState{mayPanic: mayPanicNames(files, overlay)}
	out := map[string][]byte{}
	changed := false
	for fn, src := range overlay {
		ns := st.delitFile(fn, src, original)
		out[fn] = ns
		if !bytes.Equal(ns, src) {
			changed = true
		}
	}
	if !changed {
		return overlay, st.notes
	}
	cfg := &packages.Config{
		Mode:    packages.NeedName | packages.NeedFiles | packages.NeedSyntax | packages.NeedTypes | packages.NeedTypesInfo | packages.NeedImports | packages.NeedDeps | packages.NeedCompiledGoFiles,
		Dir:     dir,
		Env:     env,
		Overlay: out,
		Tests:   false,
	}
	pkgs, err := packages.Load(cfg, ".")
	if err != nil || len(pkgs) != 1 || len(pkgs[0].Errors) > 0 {
		why := ""
		if err == nil && len(pkgs) == 1 && len(pkgs[0].Errors) > 0 {
			why = ": " + pkgs[0].Errors[0].Error()
		}
		return overlay, append(st.notes, "de-literalisation undone: the package does not type-check with it"+why)
	}
	return out, st.notes
}

func rootIdentOf(e ast.Expr) *ast.Ident {
	for {
		switch x := e.(type) {
		case *ast.Ident:
			return x
		case *ast.SelectorExpr:
			e = x.X
		case *ast.IndexExpr:
			e = x.X
		case *ast.StarExpr:
			e = x.X
		case *ast.ParenExpr:
			e = x.X
		default:
			return nil
		}
	}
}

// undeferable: a deferred call without arguments whose function is a chain of selections from a name (x.mu.Unlock) or
// a parameterless function literal; evaluating it at the exit instead of at the defer statement gives the same call
// when the name is not assigned in between (checked by the caller).
func undeferable(d *ast.DeferStmt) bool {
	if len(d.Call.Args) != 0 {
		return false
	}
	switch f := d.Call.Fun.(type) {
	case *ast.FuncLit:
		return f.Type.Params == nil || len(f.Type.Params.List) == 0
	case *ast.SelectorExpr:
		var e ast.Expr = f
		for {
			switch x := e.(type) {
			case *ast.SelectorExpr:
				e = x.X
				continue
			case *ast.Ident:
				return true
			}
			return false
		}
	}
	return false
}

// The literals that stand in the files on disk are never rewritten. Comparing texts is not enough for that: once a
// helper called inside such a literal has been inlined, its text differs from the one on disk. markOriginals therefore
// puts a declaration that generates no code at the head of every immediately invoked literal before anything else is
// done; it travels with the literal through every later rewrite.
const origMarker = " const _bbOrig = 0;"

func markOriginals(src []byte) []byte {
	fset := token.NewFileSet()
	f, err := parser.ParseFile(fset, "x.go", src, parser.SkipObjectResolution)
	if err != nil {
		return src
	}
	var offs []int
	ast.Inspect(f, func(n ast.Node) bool {
		if ce, ok := n.(*ast.CallExpr); ok {
			if fl, ok := ce.Fun.(*ast.FuncLit); ok && !hasOrigMarker(fl) {
				offs = append(offs, fset.Position(fl.Body.Lbrace).Offset+1)
			}
		}
		return true
	})
	if len(offs) == 0 {
		return src
	}
	sort.Sort(sort.Reverse(sort.IntSlice(offs)))
	out := append([]byte{}, src...)
	for _, o := range offs {
		out = append(append(append([]byte{}, out[:o]...), []byte(origMarker)...), out[o:]...)
	}
	return out
}

func hasOrigMarker(fl *ast.FuncLit) bool {
	if fl.Body == nil || len(fl.Body.List) == 0 {
		return false
	}
	ds, ok := fl.Body.List[0].(*ast.DeclStmt)
	if !ok {
		return false
	}
	gd, ok := ds.Decl.(*ast.GenDecl)
	if !ok || gd.Tok != token.CONST || len(gd.Specs) != 1 {
		return false
	}
	vs := gd.Specs[0].(*ast.ValueSpec)
	return len(vs.Names) == 1 && vs.Names[0].Name == "_bbOrig"
}
