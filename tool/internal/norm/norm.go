// Package norm undoes "extract function" refactorings before the analysis: every call of a function that did not
// exist when the rule tables were confirmed (an unknown helper) is inlined back into its caller at the source level
// (golang.org/x/tools' inliner, vendored under internal/xt, which preserves behaviour by construction), so that the
// anchored rules see the shape they were written for. Nothing is executed; the result is an overlay for go/packages.
// A helper that cannot be inlined is left alone: the rules then report the changed idiom as before.
package norm

import (
	"bytes"
	"fmt"
	"go/ast"
	"go/parser"
	"go/token"
	"go/types"
	"os"
	"path/filepath"
	"sort"
	"strings"

	"golang.org/x/tools/go/packages"
	"golang.org/x/tools/go/types/typeutil"

	"bbcheck/internal/xt/inline"
)

// DeclName is the receiver-qualified name of a function declaration: "Buffer.get", "DefaultCleaner".
func DeclName(fd *ast.FuncDecl) string {
	if fd.Recv == nil || len(fd.Recv.List) == 0 {
		return fd.Name.Name
	}
	t := fd.Recv.List[0].Type
	for {
		switch x := t.(type) {
		case *ast.StarExpr:
			t = x.X
			continue
		case *ast.ParenExpr:
			t = x.X
			continue
		case *ast.IndexExpr:
			t = x.X
			continue
		case *ast.IndexListExpr:
			t = x.X
			continue
		}
		break
	}
	if id, ok := t.(*ast.Ident); ok {
		return id.Name + "." + fd.Name.Name
	}
	return "?." + fd.Name.Name
}

func libFiles(dir string) ([]string, error) {
	ents, err := os.ReadDir(dir)
	if err != nil {
		return nil, err
	}
	var out []string
	for _, e := range ents {
		n := e.Name()
		if e.IsDir() || !strings.HasSuffix(n, ".go") || strings.HasSuffix(n, "_test.go") {
			continue
		}
		out = append(out, filepath.Join(dir, n))
	}
	sort.Strings(out)
	return out, nil
}

// Decls lists the declared functions of the library files (syntax only).
func Decls(dir string, overlay map[string][]byte) ([]string, error) {
	files, err := libFiles(dir)
	if err != nil {
		return nil, err
	}
	fset := token.NewFileSet()
	var out []string
	for _, fn := range files {
		var src any
		if b, ok := overlay[fn]; ok {
			src = b
		}
		f, err := parser.ParseFile(fset, fn, src, parser.SkipObjectResolution)
		if err != nil {
			return nil, err
		}
		for _, d := range f.Decls {
			if fd, ok := d.(*ast.FuncDecl); ok {
				out = append(out, DeclName(fd))
			}
		}
	}
	sort.Strings(out)
	return out, nil
}

// Sigs returns the receiver-free signature of every declared function of the library (type-checked).
func Sigs(dir string, env []string) (map[string]string, error) {
	cfg := &packages.Config{
		Mode: packages.NeedName | packages.NeedFiles | packages.NeedSyntax | packages.NeedTypes | packages.NeedTypesInfo | packages.NeedImports | packages.NeedDeps | packages.NeedCompiledGoFiles,
		Dir:  dir, Env: env, Tests: false,
	}
	pkgs, err := packages.Load(cfg, ".")
	if err != nil || len(pkgs) != 1 {
		return nil, fmt.Errorf("load failed")
	}
	pkg := pkgs[0]
	out := map[string]string{}
	for _, f := range pkg.Syntax {
		for _, d := range f.Decls {
			if fd, ok := d.(*ast.FuncDecl); ok {
				if obj, ok := pkg.TypesInfo.Defs[fd.Name].(*types.Func); ok {
					sig := obj.Type().(*types.Signature)
					out[DeclName(fd)] = types.TypeString(types.NewSignatureType(nil, nil, nil, sig.Params(), sig.Results(), sig.Variadic()), func(p *types.Package) string { return p.Name() })
				}
			}
		}
	}
	return out, nil
}

// TypeDecls lists the named types declared by the library files (syntax only).
func TypeDecls(dir string) ([]string, error) {
	files, err := libFiles(dir)
	if err != nil {
		return nil, err
	}
	fset := token.NewFileSet()
	var out []string
	for _, fn := range files {
		f, err := parser.ParseFile(fset, fn, nil, parser.SkipObjectResolution)
		if err != nil {
			return nil, err
		}
		for _, d := range f.Decls {
			if gd, ok := d.(*ast.GenDecl); ok && gd.Tok == token.TYPE {
				for _, sp := range gd.Specs {
					out = append(out, sp.(*ast.TypeSpec).Name.Name)
				}
			}
		}
	}
	sort.Strings(out)
	return out, nil
}

// renameBack undoes renames of unexported functions, methods and types: an unknown declaration that is the only
// candidate (same receiver and signature for functions; same set of method names and same kind of underlying type for
// types) for a known declaration that disappeared is given its old name again, in every library file.
func renameBack(dir string, known, knownTypes map[string]bool, env []string) (map[string][]byte, []string) {
	cfg := &packages.Config{
		Mode: packages.NeedName | packages.NeedFiles | packages.NeedSyntax | packages.NeedTypes | packages.NeedTypesInfo | packages.NeedImports | packages.NeedDeps | packages.NeedCompiledGoFiles,
		Dir:  dir, Env: env, Tests: false,
	}
	pkgs, err := packages.Load(cfg, ".")
	if err != nil || len(pkgs) != 1 || len(pkgs[0].Errors) > 0 {
		return nil, nil
	}
	pkg := pkgs[0]
	var notes []string
	rename := map[types.Object]string{}
	// types first
	scope := pkg.Types.Scope()
	var missingT, unknownT []string
	for t := range knownTypes {
		if scope.Lookup(t) == nil {
			missingT = append(missingT, t)
		}
	}
	for _, n := range scope.Names() {
		if tn, ok := scope.Lookup(n).(*types.TypeName); ok && !tn.IsAlias() && !knownTypes[n] && !tn.Exported() {
			unknownT = append(unknownT, n)
		}
	}
	sort.Strings(missingT)
	sort.Strings(unknownT)
	methodsOfKnown := func(t string) []string {
		var ms []string
		for d := range known {
			if strings.HasPrefix(d, t+".") {
				ms = append(ms, strings.TrimPrefix(d, t+"."))
			}
		}
		sort.Strings(ms)
		return ms
	}
	typeRenamed := map[string]string{} // new -> old
	for _, mt := range missingT {
		want := strings.Join(methodsOfKnown(mt), ",")
		var cands []string
		for _, ut := range unknownT {
			if typeRenamed[ut] != "" {
				continue
			}
			named, _ := scope.Lookup(ut).Type().(*types.Named)
			if named == nil {
				continue
			}
			var ms []string
			for i := 0; i < named.NumMethods(); i++ {
				ms = append(ms, named.Method(i).Name())
			}
			sort.Strings(ms)
			if strings.Join(ms, ",") == want {
				cands = append(cands, ut)
			}
		}
		if len(cands) == 1 {
			typeRenamed[cands[0]] = mt
			rename[scope.Lookup(cands[0])] = mt
			notes = append(notes, "renamed type "+cands[0]+" back to "+mt)
		}
	}
	// fields of known struct types: a known unexported field that disappeared and exactly one new field of the same type
	{
		have := fieldsOf(pkg)
		byType := map[string][]string{} // "Type" -> known field names
		for k := range KnownFields {
			i := strings.Index(k, ".")
			byType[k[:i]] = append(byType[k[:i]], k[i+1:])
		}
		oldName := func(t string) string { // name of the type before it was renamed (if it was)
			if o, ok := typeRenamed[t]; ok {
				return o
			}
			return t
		}
		for _, n := range scope.Names() {
			tn, ok := scope.Lookup(n).(*types.TypeName)
			if !ok || tn.IsAlias() {
				continue
			}
			st, ok := tn.Type().Underlying().(*types.Struct)
			if !ok || len(byType[oldName(n)]) == 0 {
				continue
			}
			on := oldName(n)
			var missing []string
			for _, f := range byType[on] {
				if _, ok := have[n+"."+f]; !ok && !token.IsExported(f) {
					missing = append(missing, f)
				}
			}
			sort.Strings(missing)
			var unknownFields []*types.Var
			for i := 0; i < st.NumFields(); i++ {
				f := st.Field(i)
				if _, known := KnownFields[on+"."+f.Name()]; !known && !f.Exported() && !f.Embedded() {
					unknownFields = append(unknownFields, f)
				}
			}
			for _, mf := range missing {
				want := KnownFields[on+"."+mf]
				comp := 0
				for _, other := range missing {
					if KnownFields[on+"."+other] == want {
						comp++
					}
				}
				var cands []*types.Var
				for _, uf := range unknownFields {
					if have[n+"."+uf.Name()] == want {
						cands = append(cands, uf)
					}
				}
				if comp == 1 && len(cands) == 1 {
					rename[cands[0]] = mf
					notes = append(notes, "renamed field "+n+"."+cands[0].Name()+" back to "+mf)
				}
			}
		}
	}
	// functions and methods (receiver type taken after type renames)
	type fdecl struct {
		obj  *types.Func
		name string // receiver-qualified, with old type names
	}
	var unknownF []fdecl
	now := map[string]bool{}
	for _, f := range pkg.Syntax {
		if strings.HasSuffix(pkg.Fset.File(f.Pos()).Name(), "_test.go") {
			continue
		}
		for _, d := range f.Decls {
			fd, ok := d.(*ast.FuncDecl)
			if !ok {
				continue
			}
			n := DeclName(fd)
			if i := strings.Index(n, "."); i > 0 && typeRenamed[n[:i]] != "" {
				n = typeRenamed[n[:i]] + n[i:]
			}
			now[n] = true
			if !known[n] && !fd.Name.IsExported() {
				if obj, ok := pkg.TypesInfo.Defs[fd.Name].(*types.Func); ok {
					unknownF = append(unknownF, fdecl{obj, n})
				}
			}
		}
	}
	var missingF []string
	for d := range known {
		if !now[d] {
			missingF = append(missingF, d)
		}
	}
	sort.Strings(missingF)
	recvOf := func(n string) string {
		if i := strings.Index(n, "."); i > 0 {
			return n[:i]
		}
		return ""
	}
	used := map[*types.Func]bool{}
	sigOf := func(f *types.Func) string {
		sig := f.Type().(*types.Signature)
		return types.TypeString(types.NewSignatureType(nil, nil, nil, sig.Params(), sig.Results(), sig.Variadic()), func(p *types.Package) string { return p.Name() })
	}
	for _, mf := range missingF {
		var cands []fdecl
		for _, u := range unknownF {
			if !used[u.obj] && recvOf(u.name) == recvOf(mf) && (KnownSigs[mf] == "" || KnownSigs[mf] == sigOf(u.obj)) {
				cands = append(cands, u)
			}
		}
		if len(cands) == 1 {
			// and no other missing function (same receiver, same signature) competes for it
			comp := 0
			for _, other := range missingF {
				if recvOf(other) == recvOf(mf) && KnownSigs[other] == KnownSigs[mf] {
					comp++
				}
			}
			if comp != 1 {
				continue
			}
			used[cands[0].obj] = true
			old := mf[strings.Index(mf, ".")+1:]
			rename[cands[0].obj] = old
			notes = append(notes, "renamed "+cands[0].name+" back to "+mf)
		}
	}
	// several missing / several unknown with one receiver: pair by signature
	for _, mf := range missingF {
		done := false
		for _, n := range notes {
			if strings.HasSuffix(n, "back to "+mf) {
				done = true
			}
		}
		if done {
			continue
		}
		_ = mf
	}
	if len(rename) == 0 {
		return nil, notes
	}
	// apply: every identifier that resolves to a renamed object
	overlay := map[string][]byte{}
	for _, f := range pkg.Syntax {
		fname := pkg.Fset.File(f.Pos()).Name()
		if strings.HasSuffix(fname, "_test.go") {
			continue
		}
		type ed struct {
			off int
			old string
			new string
		}
		var eds []ed
		ast.Inspect(f, func(n ast.Node) bool {
			id, ok := n.(*ast.Ident)
			if !ok {
				return true
			}
			obj := pkg.TypesInfo.Defs[id]
			if obj == nil {
				obj = pkg.TypesInfo.Uses[id]
			}
			if fn, isF := obj.(*types.Func); isF {
				obj = fn.Origin()
			}
			if v, isV := obj.(*types.Var); isV && v.IsField() {
				obj = v.Origin()
			}
			if nn, ok := rename[obj]; ok && obj != nil {
				eds = append(eds, ed{pkg.Fset.Position(id.Pos()).Offset, id.Name, nn})
			}
			return true
		})
		if len(eds) == 0 {
			continue
		}
		src, err := os.ReadFile(fname)
		if err != nil {
			return nil, notes
		}
		sort.Slice(eds, func(i, j int) bool { return eds[i].off > eds[j].off })
		for _, e := range eds {
			src = append(append(append([]byte{}, src[:e.off]...), []byte(e.new)...), src[e.off+len(e.old):]...)
		}
		overlay[fname] = src
	}
	return overlay, notes
}

// Normalize inlines the calls of unknown helpers. It returns the overlay (nil when nothing had to be done) and
// one note per action.
func Normalize(dir string, known map[string]bool, env []string) (map[string][]byte, []string, error) {
	decls, err := Decls(dir, nil)
	if err != nil {
		return nil, nil, err
	}
	unknown := map[string]bool{}
	for _, d := range decls {
		if !known[d] {
			unknown[d] = true
		}
	}
	unknownTypes := false
	if tds, err := TypeDecls(dir); err == nil {
		for _, t := range tds {
			if !KnownTypes[t] {
				unknownTypes = true
			}
		}
	}
	unknownFields := false
	if files, err := libFiles(dir); err == nil {
		fset := token.NewFileSet()
		for _, fn := range files {
			f, err := parser.ParseFile(fset, fn, nil, parser.SkipObjectResolution)
			if err != nil {
				continue
			}
			ast.Inspect(f, func(n ast.Node) bool {
				ts, ok := n.(*ast.TypeSpec)
				if !ok {
					return true
				}
				if st, ok := ts.Type.(*ast.StructType); ok && KnownTypes[ts.Name.Name] && st.Fields != nil {
					for _, fld := range st.Fields.List {
						for _, nm := range fld.Names {
							if _, known := KnownFields[ts.Name.Name+"."+nm.Name]; !known {
								unknownFields = true
							}
						}
					}
				}
				return true
			})
		}
	}
	closureVars := hasClosureVarCandidates(dir)
	if len(unknown) == 0 && !unknownTypes && !unknownFields && !closureVars {
		return nil, nil, nil
	}
	overlay := map[string][]byte{}
	var notes []string
	if ov, ns := renameBack(dir, known, KnownTypes, env); len(ov) > 0 {
		overlay = ov
		notes = append(notes, ns...)
		// the set of unknown declarations changes with the renames
		if decls2, err := Decls(dir, overlay); err == nil {
			unknown = map[string]bool{}
			for _, d := range decls2 {
				if !known[d] {
					unknown[d] = true
				}
			}
		}
	}
	// mark the literals of the files on disk (see markOriginals)
	marked := map[string]bool{}
	if files, err := libFiles(dir); err == nil {
		for _, fn := range files {
			src, had := overlay[fn]
			if !had {
				src, _ = os.ReadFile(fn)
			}
			if ms := markOriginals(src); !bytes.Equal(ms, src) {
				overlay[fn] = ms
				if !had {
					marked[fn] = true
				}
			}
		}
	}
	failed := map[string]bool{}
	mvCounter := 0
	for iter := 0; iter < 60; iter++ {
		cfg := &packages.Config{
			Mode:    packages.NeedName | packages.NeedFiles | packages.NeedSyntax | packages.NeedTypes | packages.NeedTypesInfo | packages.NeedImports | packages.NeedDeps | packages.NeedCompiledGoFiles,
			Dir:     dir,
			Env:     env,
			Overlay: overlay,
			Tests:   false,
		}
		pkgs, err := packages.Load(cfg, ".")
		if err != nil || len(pkgs) != 1 || len(pkgs[0].Errors) > 0 {
			return overlay, append(notes, "normalisation stopped: the package does not load"), nil
		}
		pkg := pkgs[0]
		content := func(fname string) []byte {
			if b, ok := overlay[fname]; ok {
				return b
			}
			b, _ := os.ReadFile(fname)
			return b
		}
		// the unknown helpers of this iteration
		type helper struct {
			decl *ast.FuncDecl
			file *ast.File
			obj  *types.Func
		}
		helpers := map[*types.Func]*helper{}
		for _, f := range pkg.Syntax {
			if strings.HasSuffix(pkg.Fset.File(f.Pos()).Name(), "_test.go") {
				continue
			}
			for _, d := range f.Decls {
				if fd, ok := d.(*ast.FuncDecl); ok && fd.Body != nil && unknown[DeclName(fd)] && !fd.Name.IsExported() {
					if obj, ok := pkg.TypesInfo.Defs[fd.Name].(*types.Func); ok {
						helpers[obj] = &helper{fd, f, obj}
					}
				}
			}
		}
		if len(helpers) == 0 {
			break
		}
		// a method value of a helper becomes a literal that calls it (the call is then inlined below)
		if fn, out, note := hoistLiteralReceiver(pkg, func(f *types.Func) bool { return helpers[f] != nil }, content, failed, &mvCounter); fn != "" {
			overlay[fn] = out
			notes = append(notes, note)
			continue
		}
		if fn, out, note := wrapFuncValue(pkg, func(f *types.Func) bool { return helpers[f] != nil }, content, failed, &mvCounter); fn != "" {
			overlay[fn] = out
			notes = append(notes, note)
			continue
		}
		if fn, out, note := wrapMethodValue(pkg, func(f *types.Func) bool { return helpers[f] != nil }, content, failed, &mvCounter); fn != "" {
			overlay[fn] = out
			notes = append(notes, note)
			continue
		}
		// first call site of a helper that has not failed yet
		var callFile *ast.File
		var call *ast.CallExpr
		var target *helper
		uses := map[*types.Func]int{}
		for id, obj := range pkg.TypesInfo.Uses {
			_ = id
			if fn, ok := obj.(*types.Func); ok {
				if h := helpers[fn.Origin()]; h != nil {
					uses[fn.Origin()]++
				}
			}
		}
		for _, f := range pkg.Syntax {
			if call != nil {
				break
			}
			fname := pkg.Fset.File(f.Pos()).Name()
			if strings.HasSuffix(fname, "_test.go") {
				continue
			}
			ast.Inspect(f, func(n ast.Node) bool {
				if call != nil {
					return false
				}
				ce, ok := n.(*ast.CallExpr)
				if !ok {
					return true
				}
				fn, _ := typeutil.Callee(pkg.TypesInfo, ce).(*types.Func)
				if fn == nil {
					return true
				}
				h := helpers[fn.Origin()]
				if h == nil {
					return true
				}
				key := fmt.Sprintf("%s@%s:%d", DeclName(h.decl), filepath.Base(fname), pkg.Fset.Position(ce.Pos()).Line)
				if failed[key] {
					return true
				}
				// a helper that calls itself stays a function: copying its body would copy the recursive call
				if callsItself(pkg.TypesInfo, h.decl, fn.Origin()) {
					failed[key] = true
					return true
				}
				// never inline a helper into itself
				for _, d := range f.Decls {
					if fd, ok := d.(*ast.FuncDecl); ok && fd == h.decl && ce.Pos() >= fd.Pos() && ce.End() <= fd.End() {
						failed[key] = true
						return true
					}
				}
				call, callFile, target = ce, f, h
				return false
			})
		}
		if call == nil {
			// no (more) inlinable call sites: drop the helpers that are not referenced any more
			removed := false
			for obj, h := range helpers {
				if uses[obj] != 0 {
					continue
				}
				fname := pkg.Fset.File(h.file.Pos()).Name()
				src := content(fname)
				start := h.decl.Pos()
				if h.decl.Doc != nil {
					start = h.decl.Doc.Pos()
				}
				so, eo := pkg.Fset.Position(start).Offset, pkg.Fset.Position(h.decl.End()).Offset
				ns := append(append([]byte{}, src[:so]...), src[eo:]...)
				overlay[fname] = ns
				notes = append(notes, "removed the now unused helper "+DeclName(h.decl))
				delete(unknown, DeclName(h.decl))
				removed = true
				break // positions of the other helpers are stale now
			}
			if !removed {
				break
			}
			continue
		}
		fname := pkg.Fset.File(callFile.Pos()).Name()
		hname := pkg.Fset.File(target.file.Pos()).Name()
		key := fmt.Sprintf("%s@%s:%d", DeclName(target.decl), filepath.Base(fname), pkg.Fset.Position(call.Pos()).Line)
		callee, err := inline.AnalyzeCallee(func(string, ...any) {}, pkg.Fset, pkg.Types, pkg.TypesInfo, target.decl, content(hname))
		if err != nil {
			failed[key] = true
			notes = append(notes, "could not analyse helper "+DeclName(target.decl)+": "+err.Error())
			continue
		}
		res, err := inline.Inline(&inline.Caller{Fset: pkg.Fset, Types: pkg.Types, Info: pkg.TypesInfo, File: callFile, Call: call, Content: content(fname)}, callee, &inline.Options{})
		if err != nil {
			failed[key] = true
			notes = append(notes, "could not inline "+key+": "+err.Error())
			continue
		}
		if res.Literalized && os.Getenv("BB_NOLIT") != "" {
			failed[key] = true
			continue
		}
		overlay[fname] = res.Content
		lit := ""
		if res.Literalized {
			lit = " (as a function literal)"
		}
		notes = append(notes, "inlined the call of the unknown helper "+key+lit)
	}
	if len(overlay) > 0 && os.Getenv("BB_NODELIT") == "" {
		ov, ns := delitOverlay(dir, overlay, env)
		overlay = ov
		notes = append(notes, ns...)
	}
	// local variables of unknown struct types that only bundle values: one variable per field
	if (unknownTypes || closureVars || len(overlay) > 0) && os.Getenv("BB_NOSRA") == "" {
		tried := map[string]bool{}
		for iter := 0; iter < 40; iter++ {
			cfg := &packages.Config{
				Mode:    packages.NeedName | packages.NeedFiles | packages.NeedSyntax | packages.NeedTypes | packages.NeedTypesInfo | packages.NeedImports | packages.NeedDeps | packages.NeedCompiledGoFiles,
				Dir:     dir,
				Env:     env,
				Overlay: overlay,
				Tests:   false,
			}
			pkgs, err := packages.Load(cfg, ".")
			if err != nil || len(pkgs) != 1 || len(pkgs[0].Errors) > 0 {
				break
			}
			content := func(fname string) []byte {
				if b, ok := overlay[fname]; ok {
					return b
				}
				b, _ := os.ReadFile(fname)
				return b
			}
			fn, out, note := foldConstIf(pkgs[0], content)
			if fn == "" {
				fn, out, note = inlineClosureVar(pkgs[0], content, tried)
			}
			if fn == "" {
				fn, out, note = dropPointerAlias(pkgs[0], content, tried)
			}
			if fn == "" {
				fn, out, note = scalarReplace(pkgs[0], KnownTypes, content, tried)
			}
			if fn == "" && unknownTypes {
				// several files at once
				if tname, outs, note2 := unNewtype(pkgs[0], KnownTypes, content, tried); tname != "" {
					prevs := map[string][]byte{}
					hads := map[string]bool{}
					for f2, b := range outs {
						prevs[f2], hads[f2] = overlay[f2], false
						if _, ok := overlay[f2]; ok {
							hads[f2] = true
						}
						overlay[f2] = b
					}
					cfg.Overlay = overlay
					if chk, err := packages.Load(cfg, "."); err != nil || len(chk) != 1 || len(chk[0].Errors) > 0 {
						for f2 := range outs {
							if hads[f2] {
								overlay[f2] = prevs[f2]
							} else {
								delete(overlay, f2)
							}
						}
						notes = append(notes, "not applied (does not type-check): "+note2)
					} else {
						notes = append(notes, note2)
					}
					continue
				}
			}
			if fn == "" {
				break
			}
			prev, had := overlay[fn]
			overlay[fn] = out
			cfg.Overlay = overlay
			if chk, err := packages.Load(cfg, "."); err != nil || len(chk) != 1 || len(chk[0].Errors) > 0 {
				// does not type-check: undone
				if had {
					overlay[fn] = prev
				} else {
					delete(overlay, fn)
				}
				notes = append(notes, "not applied (does not type-check): "+note)
				continue
			}
			notes = append(notes, note)
		}
	}
	// files that only received markers are as on disk
	for fn := range marked {
		if disk, err := os.ReadFile(fn); err == nil && bytes.Equal(bytes.ReplaceAll(overlay[fn], []byte(origMarker), nil), disk) {
			delete(overlay, fn)
		}
	}
	if len(overlay) == 0 {
		return nil, notes, nil
	}
	return overlay, notes, nil
}

// Fields returns "Type.field" -> type string for every field of every named struct type of the library (type-checked;
// generic types with their own parameter names).
func Fields(dir string, env []string, overlay map[string][]byte) (map[string]string, error) {
	cfg := &packages.Config{
		Mode: packages.NeedName | packages.NeedFiles | packages.NeedSyntax | packages.NeedTypes | packages.NeedTypesInfo | packages.NeedImports | packages.NeedDeps | packages.NeedCompiledGoFiles,
		Dir:  dir, Env: env, Tests: false, Overlay: overlay,
	}
	pkgs, err := packages.Load(cfg, ".")
	if err != nil || len(pkgs) != 1 {
		return nil, fmt.Errorf("load failed")
	}
	return fieldsOf(pkgs[0]), nil
}

func fieldsOf(pkg *packages.Package) map[string]string {
	out := map[string]string{}
	scope := pkg.Types.Scope()
	for _, n := range scope.Names() {
		tn, ok := scope.Lookup(n).(*types.TypeName)
		if !ok || tn.IsAlias() {
			continue
		}
		st, ok := tn.Type().Underlying().(*types.Struct)
		if !ok {
			continue
		}
		for i := 0; i < st.NumFields(); i++ {
			f := st.Field(i)
			out[n+"."+f.Name()] = types.TypeString(f.Type(), func(p *types.Package) string { return p.Name() })
		}
	}
	return out
}

// callsItself: the body of decl contains a call of the function it declares.
func callsItself(info *types.Info, decl *ast.FuncDecl, self *types.Func) bool {
	found := false
	ast.Inspect(decl, func(n ast.Node) bool {
		if ce, ok := n.(*ast.CallExpr); ok && !found {
			if fn, _ := typeutil.Callee(info, ce).(*types.Func); fn != nil && fn.Origin() == self {
				found = true
			}
		}
		return !found
	})
	return found
}
