package norm

import (
	"fmt"
	"go/ast"
	"go/parser"
	"go/token"
	"go/types"
	"strings"

	"golang.org/x/tools/go/packages"
)

// inlineClosureVar undoes "function literal of a go/defer statement -> named local closure":
//
//	wait := func() { ... }          go func() { ... }()
//	...                       =>
//	go wait()
//
// Conditions (all checked on the type-checked package): the variable is a local declared with the literal as its
// initialiser (x := func..., or a single-name var spec), it is mentioned exactly once more, as the function of the call
// of a go or defer statement (so it is never re-assigned, compared, passed on or called directly), and every name the
// literal uses that is declared outside of it resolves to the same object at that statement (nothing is shadowed in
// between). Creating the closure at the statement instead of at the declaration then yields a closure over the same
// variables; the arguments of the call are untouched. The result is type-checked by the caller before it is used.
func inlineClosureVar(pkg *packages.Package, content func(string) []byte, tried map[string]bool) (string, []byte, string) {
	info := pkg.TypesInfo
	for _, f := range pkg.Syntax {
		fname := pkg.Fset.File(f.Pos()).Name()
		if strings.HasSuffix(fname, "_test.go") {
			continue
		}
		off := func(p token.Pos) int { return pkg.Fset.Position(p).Offset }
		par := parents(f)
		type cand struct {
			obj      types.Object
			lit      *ast.FuncLit
			from, to token.Pos // the declaration to delete
		}
		var cands []cand
		ast.Inspect(f, func(n ast.Node) bool {
			switch x := n.(type) {
			case *ast.AssignStmt:
				if x.Tok == token.DEFINE && len(x.Lhs) == 1 && len(x.Rhs) == 1 {
					if lit, ok := x.Rhs[0].(*ast.FuncLit); ok {
						if id, ok := x.Lhs[0].(*ast.Ident); ok && info.Defs[id] != nil {
							if _, isBlock := par[x].(*ast.BlockStmt); isBlock {
								cands = append(cands, cand{info.Defs[id], lit, x.Pos(), x.End()})
							}
						}
					}
				}
			case *ast.DeclStmt:
				gd, ok := x.Decl.(*ast.GenDecl)
				if !ok || gd.Tok != token.VAR {
					return true
				}
				for _, sp := range gd.Specs {
					vs := sp.(*ast.ValueSpec)
					if len(vs.Names) != 1 || len(vs.Values) != 1 {
						continue
					}
					lit, ok := vs.Values[0].(*ast.FuncLit)
					if !ok || info.Defs[vs.Names[0]] == nil {
						continue
					}
					from, to := vs.Pos(), vs.End()
					if len(gd.Specs) == 1 {
						from, to = x.Pos(), x.End()
					}
					cands = append(cands, cand{info.Defs[vs.Names[0]], lit, from, to})
				}
			}
			return true
		})
		for _, c := range cands {
			key := fmt.Sprintf("closurevar:%s:%d", shortName(fname), pkg.Fset.Position(c.lit.Pos()).Line)
			if tried[key] {
				continue
			}
			if enclosingFuncDecl(par, c.lit) == nil {
				continue
			}
			var uses []*ast.Ident
			for id, o := range info.Uses {
				if o == c.obj {
					uses = append(uses, id)
				}
			}
			if len(uses) != 1 {
				continue
			}
			use := uses[0]
			call, ok := par[use].(*ast.CallExpr)
			if !ok || call.Fun != ast.Expr(use) {
				continue
			}
			switch st := par[call].(type) {
			case *ast.GoStmt:
				if st.Call != call {
					continue
				}
			case *ast.DeferStmt:
				if st.Call != call {
					continue
				}
			default:
				continue
			}
			if use.Pos() >= c.lit.Pos() && use.Pos() < c.lit.End() {
				continue
			}
			// every outside name resolves to the same object at the statement
			same := true
			at := pkg.Types.Scope().Innermost(use.Pos())
			ast.Inspect(c.lit, func(n ast.Node) bool {
				id, ok := n.(*ast.Ident)
				if !ok || !same {
					return same
				}
				o := info.Uses[id]
				if o == nil {
					return true
				}
				if o.Pos() >= c.lit.Pos() && o.Pos() < c.lit.End() {
					return true
				}
				switch ov := o.(type) {
				case *types.Var:
					if ov.IsField() {
						return true
					}
				case *types.Func:
					if sig, _ := ov.Type().(*types.Signature); sig != nil && sig.Recv() != nil {
						return true
					}
				case *types.Label:
					same = false
					return false
				}
				if at == nil {
					same = false
					return false
				}
				if _, got := at.LookupParent(id.Name, use.Pos()); got != o {
					same = false
				}
				return same
			})
			tried[key] = true
			if !same {
				continue
			}
			src := content(fname)
			litText := string(src[off(c.lit.Pos()):off(c.lit.End())])
			out := applyEdits(append([]byte{}, src...), []srcEdit{
				{off(use.Pos()), off(use.End()), litText},
				{off(c.from), off(c.to), ""},
			})
			return fname, out, fmt.Sprintf("the closure variable %s (%s:%d) is written as the literal of its only go/defer statement", c.obj.Name(), shortName(fname), pkg.Fset.Position(c.lit.Pos()).Line)
		}
	}
	return "", nil, ""
}

// hasClosureVarCandidates: a parse-only pre-check for inlineClosureVar (a local name initialised with a function literal
// that is the function of a go or defer call somewhere in the same file).
func hasClosureVarCandidates(dir string) bool {
	files, err := libFiles(dir)
	if err != nil {
		return false
	}
	fset := token.NewFileSet()
	for _, fn := range files {
		f, err := parser.ParseFile(fset, fn, nil, parser.SkipObjectResolution)
		if err != nil {
			continue
		}
		names := map[string]bool{}
		called := map[string]bool{}
		ast.Inspect(f, func(n ast.Node) bool {
			switch x := n.(type) {
			case *ast.AssignStmt:
				if x.Tok == token.DEFINE && len(x.Lhs) == 1 && len(x.Rhs) == 1 {
					if _, ok := x.Rhs[0].(*ast.FuncLit); ok {
						if id, ok := x.Lhs[0].(*ast.Ident); ok {
							names[id.Name] = true
						}
					}
				}
			case *ast.ValueSpec:
				if len(x.Names) == 1 && len(x.Values) == 1 {
					if _, ok := x.Values[0].(*ast.FuncLit); ok {
						names[x.Names[0].Name] = true
					}
				}
			case *ast.GoStmt:
				if id, ok := x.Call.Fun.(*ast.Ident); ok {
					called[id.Name] = true
				}
			case *ast.DeferStmt:
				if id, ok := x.Call.Fun.(*ast.Ident); ok {
					called[id.Name] = true
				}
			}
			return true
		})
		for n := range names {
			if called[n] {
				return true
			}
		}
	}
	return false
}
