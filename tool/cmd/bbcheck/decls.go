package main

import (
	"fmt"
	"os"
	"sort"

	"bbcheck/internal/an"
	"bbcheck/internal/norm"
)

// printDecls lists the declared functions (and, with types=true, the named types) of the library (used once to
// freeze norm.Known / norm.KnownTypes).
func printDecls(repo string) {
	ds, err := norm.Decls(repo, nil)
	if err != nil {
		fmt.Println("ERROR:", err)
		os.Exit(2)
	}
	for _, d := range ds {
		fmt.Println(d)
	}
	sigs, err := norm.Sigs(repo, an.LoadEnv(""))
	if err != nil {
		fmt.Println("ERROR:", err)
		os.Exit(2)
	}
	for _, d := range ds {
		fmt.Println("sig " + d + "\t" + sigs[d])
	}
	ts, err := norm.TypeDecls(repo)
	if err != nil {
		fmt.Println("ERROR:", err)
		os.Exit(2)
	}
	for _, t := range ts {
		fmt.Println("type " + t)
	}
	fs, err := norm.Fields(repo, an.LoadEnv(""), nil)
	if err != nil {
		fmt.Println("ERROR:", err)
		os.Exit(2)
	}
	var ks []string
	for k := range fs {
		ks = append(ks, k)
	}
	sort.Strings(ks)
	for _, k := range ks {
		fmt.Println("field " + k + "\t" + fs[k])
	}
}
