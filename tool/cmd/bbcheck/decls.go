package main

import (
	"fmt"
	"os"

	"bbcheck/internal/norm"
)

// printDecls lists the declared functions of the library (used once to freeze norm.Known).
func printDecls(repo string) {
	ds, err := norm.Decls(repo, nil)
	if err != nil {
		fmt.Println("ERROR:", err)
		os.Exit(2)
	}
	for _, d := range ds {
		fmt.Println(d)
	}
}
