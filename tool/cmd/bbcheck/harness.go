package main

// Sensitivity / invariance harness (thorough tier, DESIGN.md section 6).
//
// Single-site edits of the CURRENT tree are generated from its syntax (never from frozen text),
// applied as in-memory overlays, type-checked (variants that do not compile are discarded) and
// re-analysed in subprocesses. Sensitivity edits are the kind of change that should break an
// obligation; invariance edits preserve behaviour and must not change any verdict. Results are
// reported as counts and CHECKER-NOTE lines; they never produce a VIOLATION and never change the
// exit code (they say something about the checker, not about /repo).

import (
	"bytes"
	"encoding/json"
	"fmt"
	"go/ast"
	"go/token"
	"go/types"
	"os"
	"os/exec"
	"path/filepath"
	"sort"
	"strconv"
	"strings"
	"sync"

	"bbcheck/internal/an"
	"bbcheck/internal/props"
)

type edit struct {
	File string `json:"file"`
	Off  int    `json:"off"`
	End  int    `json:"end"`
	Text string `json:"text"`
}

type variant struct {
	Kind  string `json:"kind"` // "sens" | "inv"
	Op    string `json:"op"`
	Desc  string `json:"desc"`
	Pos   string `json:"pos"`
	Edits []edit `json:"edits"`
}

var harnessKind string

type variantResult struct {
	V        variant
	Compiled bool
	Flagged  []string // property ids with violations
	Keys     map[string][]string
	Err      string
}

func src(fset *token.FileSet, content []byte, n ast.Node) string {
	return string(content[fset.Position(n.Pos()).Offset:fset.Position(n.End()).Offset])
}

// genVariants enumerates edits in the given files of the loaded program.
func genVariants(p *an.Prog, files map[string]bool) []variant {
	var out []variant
	fset := p.Fset
	info := p.PP.TypesInfo
	for _, f := range p.PP.Syntax {
		fname := fset.Position(f.Pos()).Filename
		base := filepath.Base(fname)
		if len(files) > 0 && !files[base] {
			continue
		}
		content, err := os.ReadFile(fname)
		if err != nil {
			continue
		}
		off := func(pos token.Pos) int { return fset.Position(pos).Offset }
		at := func(n ast.Node) string { q := fset.Position(n.Pos()); return fmt.Sprintf("%s:%d", base, q.Line) }
		del := func(n ast.Node) edit { return edit{File: fname, Off: off(n.Pos()), End: off(n.End()), Text: ""} }
		add := func(kind, op, desc string, n ast.Node, eds ...edit) {
			out = append(out, variant{Kind: kind, Op: op, Desc: desc, Pos: at(n), Edits: eds})
		}
		isCallSel := func(s ast.Stmt, names ...string) (*ast.CallExpr, string, bool) {
			var call *ast.CallExpr
			switch x := s.(type) {
			case *ast.ExprStmt:
				call, _ = x.X.(*ast.CallExpr)
			case *ast.DeferStmt:
				call = x.Call
			}
			if call == nil {
				return nil, "", false
			}
			sel, ok := call.Fun.(*ast.SelectorExpr)
			if !ok {
				return nil, "", false
			}
			for _, n := range names {
				if sel.Sel.Name == n {
					return call, src(fset, content, sel.X), true
				}
			}
			return nil, "", false
		}
		ast.Inspect(f, func(n ast.Node) bool {
			switch x := n.(type) {
			case *ast.BlockStmt:
				for i, s := range x.List {
					// lock / unlock pairs
					if _, recv, ok := isCallSel(s, "Lock", "RLock"); ok {
						if _, isExpr := s.(*ast.ExprStmt); isExpr {
							for j := i + 1; j < len(x.List); j++ {
								if _, r2, ok2 := isCallSel(x.List[j], "Unlock", "RUnlock"); ok2 && r2 == recv {
									add("sens", "delete-lock-pair", "delete "+recv+".Lock/Unlock", s, del(s), del(x.List[j]))
									// downgrade Lock -> RLock on RWMutex
									if c1, _, okl := isCallSel(s, "Lock"); okl {
										if tv, has := info.Types[c1.Fun.(*ast.SelectorExpr).X]; has && strings.Contains(tv.Type.String(), "RWMutex") {
											c2, _, _ := isCallSel(x.List[j], "Unlock")
											s1, s2 := c1.Fun.(*ast.SelectorExpr).Sel, c2.Fun.(*ast.SelectorExpr).Sel
											add("sens", "downgrade-lock", "downgrade "+recv+".Lock to RLock", s,
												edit{fname, off(s1.Pos()), off(s1.End()), "RLock"}, edit{fname, off(s2.Pos()), off(s2.End()), "RUnlock"})
										}
									}
									break
								}
							}
						}
					}
					if _, recv, ok := isCallSel(s, "Broadcast"); ok {
						add("sens", "delete-broadcast", "delete "+recv+".Broadcast()", s, del(s))
						// move it after the next unlock is covered by delete (S) + the SL rule
					}
					if d, ok := s.(*ast.DeferStmt); ok {
						txt := src(fset, content, d.Call)
						if strings.HasPrefix(txt, "cancel()") || strings.HasSuffix(txt, ".Stop()") || strings.HasPrefix(txt, "close(") {
							add("sens", "delete-defer-release", "delete defer "+txt, s, del(s))
						}
					}
					// swap adjacent simple statements
					if i+1 < len(x.List) {
						a, b := s, x.List[i+1]
						simple := func(s ast.Stmt) bool {
							switch s.(type) {
							case *ast.ExprStmt, *ast.AssignStmt, *ast.IncDecStmt:
								return true
							}
							return false
						}
						if simple(a) && simple(b) {
							ta, tb := src(fset, content, a), src(fset, content, b)
							if as, isA := a.(*ast.AssignStmt); !(isA && as.Tok == token.DEFINE) {
								add("sens", "swap-statements", "swap `"+short(ta)+"` and `"+short(tb)+"`", a,
									edit{fname, off(a.Pos()), off(a.End()), tb}, edit{fname, off(b.Pos()), off(b.End()), ta})
							}
						}
					}
				}
			case *ast.IfStmt:
				// flip comparisons in conditions
				ast.Inspect(x.Cond, func(m ast.Node) bool {
					be, ok := m.(*ast.BinaryExpr)
					if !ok {
						return true
					}
					flips := map[token.Token][]string{token.LSS: {"<="}, token.LEQ: {"<"}, token.GTR: {">="}, token.GEQ: {">"}, token.EQL: {"!="}, token.NEQ: {"=="}}
					for _, to := range flips[be.Op] {
						add("sens", "flip-comparison", "`"+short(src(fset, content, be))+"`: "+be.Op.String()+" -> "+to, be, edit{fname, off(be.OpPos), off(be.OpPos) + len(be.Op.String()), to})
					}
					// invariance: x < c  ==>  x <= c-1 (integers, constant bound)
					if lit, isLit := be.Y.(*ast.BasicLit); isLit && lit.Kind == token.INT && isIntExpr(info, be.X) {
						if c, err := strconv.ParseInt(lit.Value, 0, 64); err == nil && c > -1000 && c < 1000 {
							var to string
							switch be.Op {
							case token.LSS:
								to = fmt.Sprintf("<= %d", c-1)
							case token.LEQ:
								to = fmt.Sprintf("< %d", c+1)
							case token.GTR:
								to = fmt.Sprintf(">= %d", c+1)
							case token.GEQ:
								to = fmt.Sprintf("> %d", c-1)
							}
							if to != "" {
								add("inv", "tighten-int-comparison", "`"+short(src(fset, content, be))+"` -> "+to, be, edit{fname, off(be.OpPos), off(be.End()), to})
							}
						}
					}
					// invariance: a < b  ==>  b > a
					mirror := map[token.Token]string{token.LSS: ">", token.LEQ: ">=", token.GTR: "<", token.GEQ: "<=", token.EQL: "==", token.NEQ: "!="}
					if mo, has := mirror[be.Op]; has {
						l, r := src(fset, content, be.X), src(fset, content, be.Y)
						if !strings.Contains(l, "(") || true {
							add("inv", "mirror-comparison", "`"+short(src(fset, content, be))+"` -> operands swapped", be, edit{fname, off(be.Pos()), off(be.End()), "(" + r + ") " + mo + " (" + l + ")"})
						}
					}
					return true
				})
				// invariance: negate-and-swap
				if x.Init == nil {
					if els, ok := x.Else.(*ast.BlockStmt); ok {
						c := src(fset, content, x.Cond)
						tb, eb := src(fset, content, x.Body), src(fset, content, els)
						add("inv", "negate-and-swap-if", "if "+short(c)+" {A} else {B} -> if !(...) {B} else {A}", x,
							edit{fname, off(x.Pos()), off(x.End()), "if !(" + c + ") " + eb + " else " + tb})
					}
				}
			case *ast.IncDecStmt:
				t := src(fset, content, x.X)
				if x.Tok == token.INC {
					add("sens", "step-2", t+"++ -> += 2", x, edit{fname, off(x.Pos()), off(x.End()), t + " += 2"})
				} else {
					add("sens", "step-2", t+"-- -> -= 2", x, edit{fname, off(x.Pos()), off(x.End()), t + " -= 2"})
				}
			case *ast.BinaryExpr:
				if (x.Op == token.ADD || x.Op == token.SUB) && isIntExpr(info, x) {
					if lit, ok := x.Y.(*ast.BasicLit); ok && lit.Value == "1" {
						add("sens", "off-by-one", "`"+short(src(fset, content, x))+"`: 1 -> 2", x, edit{fname, off(lit.Pos()), off(lit.End()), "2"})
					}
					if x.Op == token.ADD {
						l, r := src(fset, content, x.X), src(fset, content, x.Y)
						if _, isLit := x.Y.(*ast.BasicLit); !isLit || true {
							add("inv", "commute-sum", "`"+short(src(fset, content, x))+"` commuted", x, edit{fname, off(x.Pos()), off(x.End()), "(" + r + " + " + l + ")"})
						}
					} else {
						// a - b  ->  a + 1 - b - 1 is pointless; sensitivity: drop a term is too coarse
					}
				}
			case *ast.CallExpr:
				if id, ok := x.Fun.(*ast.Ident); ok && id.Name == "make" && len(x.Args) == 2 {
					if _, isChan := x.Args[0].(*ast.ChanType); isChan {
						if lit, ok := x.Args[1].(*ast.BasicLit); ok && lit.Value == "1" {
							add("sens", "unbuffer-channel", "`"+short(src(fset, content, x))+"` -> unbuffered", x, edit{fname, off(x.Args[0].End()), off(x.Args[1].End()), ""})
						}
					}
				}
			}
			return true
		})
		// invariance: a no-op closure added to a function that already contains closures (closure ordinals shift;
		// the tables anchor closures by role: go / defer / callee they are passed to / variable they are stored in)
		for _, d := range f.Decls {
			fd, ok := d.(*ast.FuncDecl)
			if !ok || fd.Body == nil || len(fd.Body.List) == 0 {
				continue
			}
			has := false
			ast.Inspect(fd.Body, func(m ast.Node) bool {
				if _, isL := m.(*ast.FuncLit); isL {
					has = true
				}
				return !has
			})
			if !has {
				continue
			}
			first := fd.Body.List[0]
			out = append(out, variant{Kind: "inv", Op: "add-noop-closure", Desc: "`_ = func() {}` added at the top of " + fd.Name.Name, Pos: at(fd),
				Edits: []edit{{fname, off(first.Pos()), off(first.Pos()), "_ = func() {}\n"}}})
			out = append(out, variant{Kind: "inv", Op: "add-noop-deferred-closure", Desc: "`defer func() {}()` added at the top of " + fd.Name.Name, Pos: at(fd),
				Edits: []edit{{fname, off(first.Pos()), off(first.Pos()), "defer func() {}()\n"}}})
		}
		// invariance: `defer mu.Unlock()` -> explicit unlock before every return (only where that preserves
		// behaviour: no other defer, no panic, no func literal, and every return yields identifiers / literals only)
		for _, d := range f.Decls {
			fd, ok := d.(*ast.FuncDecl)
			if !ok || fd.Body == nil {
				continue
			}
			var dfr *ast.DeferStmt
			nDefer, bad := 0, false
			var rets []*ast.ReturnStmt
			ast.Inspect(fd.Body, func(m ast.Node) bool {
				switch x := m.(type) {
				case *ast.FuncLit:
					bad = true
					return false
				case *ast.DeferStmt:
					nDefer++
					dfr = x
				case *ast.ReturnStmt:
					rets = append(rets, x)
					for _, r := range x.Results {
						switch r.(type) {
						case *ast.Ident, *ast.BasicLit:
						default:
							bad = true
						}
					}
				case *ast.CallExpr:
					if id, ok := x.Fun.(*ast.Ident); ok && id.Name == "panic" {
						bad = true
					}
					// a callee of this package that can panic would leak the lock after the rewrite
					var obj types.Object
					switch fx := x.Fun.(type) {
					case *ast.Ident:
						obj = info.Uses[fx]
					case *ast.SelectorExpr:
						obj = info.Uses[fx.Sel]
					}
					if fo, ok := obj.(*types.Func); ok && fo.Pkg() == p.Types {
						if sf := p.SSA.FuncValue(fo.Origin()); sf != nil {
							for _, b := range sf.Blocks {
								for _, in := range b.Instrs {
									if an.IsPanic(in) {
										bad = true
									}
								}
							}
						}
					}
				}
				return true
			})
			if bad || nDefer != 1 || dfr == nil {
				continue
			}
			sel, ok := dfr.Call.Fun.(*ast.SelectorExpr)
			if !ok || (sel.Sel.Name != "Unlock" && sel.Sel.Name != "RUnlock") || len(dfr.Call.Args) != 0 {
				continue
			}
			// the defer must be a top-level statement of the body
			top := false
			for _, s := range fd.Body.List {
				if s == ast.Stmt(dfr) {
					top = true
				}
			}
			if !top {
				continue
			}
			unlock := src(fset, content, dfr.Call)
			eds := []edit{del(dfr)}
			for _, r := range rets {
				if r.Pos() < dfr.Pos() {
					continue // before the lock was taken
				}
				eds = append(eds, edit{fname, off(r.Pos()), off(r.Pos()), unlock + "\n"})
			}
			last := fd.Body.List[len(fd.Body.List)-1]
			if _, isRet := last.(*ast.ReturnStmt); !isRet {
				eds = append(eds, edit{fname, off(fd.Body.Rbrace), off(fd.Body.Rbrace), unlock + "\n"})
			}
			out = append(out, variant{Kind: "inv", Op: "defer-to-explicit-unlock", Desc: "defer " + unlock + " -> explicit unlock before every return in " + fd.Name.Name, Pos: at(fd), Edits: eds})
		}
		// sensitivity: move a Broadcast behind the unlock that follows it (explicit unlocks only) is covered by
		// delete-broadcast + the SL rule; sensitivity: drop an early-return guard
		ast.Inspect(f, func(n ast.Node) bool {
			ifs, ok := n.(*ast.IfStmt)
			if !ok || ifs.Else != nil || len(ifs.Body.List) != 1 {
				return true
			}
			if _, isRet := ifs.Body.List[0].(*ast.ReturnStmt); !isRet {
				return true
			}
			c := src(fset, content, ifs.Cond)
			if strings.Contains(c, "err") || strings.Contains(c, "== nil") {
				return true // plain error / nil-argument plumbing: exposed by any test
			}
			if ifs.Init != nil {
				return true
			}
			add("sens", "drop-guard", "drop `if "+short(c)+" { return ... }`", ifs, del(ifs))
			return true
		})
		// invariance: rename locals (one variant per function: all its local variables get a suffix)
		for _, d := range f.Decls {
			fd, ok := d.(*ast.FuncDecl)
			if !ok || fd.Body == nil {
				continue
			}
			var eds []edit
			seen := map[token.Pos]bool{}
			ast.Inspect(fd.Body, func(m ast.Node) bool {
				id, ok := m.(*ast.Ident)
				if !ok || id.Name == "_" {
					return true
				}
				var obj types.Object
				if o := info.Defs[id]; o != nil {
					obj = o
				} else if o := info.Uses[id]; o != nil {
					obj = o
				}
				v, isVar := obj.(*types.Var)
				if !isVar || v.IsField() || v.Pkg() != p.Types {
					return true
				}
				// declared inside this function body (locals only; parameters and results keep their names)
				if v.Pos() < fd.Body.Pos() || v.Pos() > fd.Body.End() {
					return true
				}
				if !seen[id.Pos()] {
					seen[id.Pos()] = true
					eds = append(eds, edit{fname, off(id.Pos()), off(id.End()), id.Name + "Renamed"})
				}
				return true
			})
			if len(eds) > 0 {
				out = append(out, variant{Kind: "inv", Op: "rename-locals", Desc: "rename every local of " + fd.Name.Name, Pos: at(fd), Edits: eds})
			}
		}
	}
	return out
}

func isIntExpr(info *types.Info, e ast.Expr) bool {
	tv, ok := info.Types[e]
	if !ok || tv.Type == nil {
		return false
	}
	b, ok := tv.Type.Underlying().(*types.Basic)
	return ok && b.Info()&types.IsInteger != 0
}

func short(s string) string {
	s = strings.Join(strings.Fields(s), " ")
	if len(s) > 60 {
		return s[:57] + "..."
	}
	return s
}

// applyEdits builds the overlay for a variant.
func applyEdits(v variant) (map[string][]byte, error) {
	by := map[string][]edit{}
	for _, e := range v.Edits {
		by[e.File] = append(by[e.File], e)
	}
	ov := map[string][]byte{}
	for f, es := range by {
		content, err := os.ReadFile(f)
		if err != nil {
			return nil, err
		}
		sort.Slice(es, func(i, j int) bool { return es[i].Off > es[j].Off })
		for i := 1; i < len(es); i++ {
			if es[i].End > es[i-1].Off {
				return nil, fmt.Errorf("overlapping edits")
			}
		}
		for _, e := range es {
			content = append(append(append([]byte{}, content[:e.Off]...), []byte(e.Text)...), content[e.End:]...)
		}
		ov[f] = content
	}
	return ov, nil
}

// runVariantChild: evaluate one batch of variants (spec file) in this process; prints JSON lines.
func runVariantChild(repo, specFile string, only []string) int {
	b, err := os.ReadFile(specFile)
	if err != nil {
		fmt.Println("cannot read spec:", err)
		return 2
	}
	var vs []variant
	if err := json.Unmarshal(b, &vs); err != nil {
		fmt.Println("bad spec:", err)
		return 2
	}
	enc := json.NewEncoder(os.Stdout)
	for _, v := range vs {
		r := variantResult{V: v, Keys: map[string][]string{}}
		func() {
			defer func() {
				if x := recover(); x != nil {
					r.Err = fmt.Sprint(x)
				}
			}()
			ov, err := applyEdits(v)
			if err != nil {
				r.Err = err.Error()
				return
			}
			p, err := an.Load(repo, ov, "")
			if err != nil {
				return // does not compile: discarded
			}
			r.Compiled = true
			s, err := an.NewSim(p, props.E1Tables())
			if err != nil {
				r.Err = err.Error()
				return
			}
			s.AddAPIRoots()
			s.Run()
			ctx := &props.Ctx{P: p, Sim: s}
			var keys []string
			for k := range s.Obs {
				keys = append(keys, k)
			}
			sort.Strings(keys)
			for _, k := range keys {
				ctx.SimObs = append(ctx.SimObs, an.FromOb(s.Obs[k]))
			}
			ctx.SimObs = append(ctx.SimObs, an.OrderObligations(s)...)
			ids := only
			if len(ids) == 0 {
				ids = props.IDs()
			}
			for _, id := range ids {
				pr := props.Get(id)
				if pr == nil {
					continue
				}
				ctx.C = an.NewCollector(p)
				obs := pr.Build(ctx)
				bad := false
				for _, f := range pr.Floors {
					n := 0
					for _, o := range obs {
						if f.Match(o) {
							n++
						}
					}
					if n < f.Min {
						bad = true
						r.Keys[id] = append(r.Keys[id], "FLOOR:"+f.Desc)
					}
				}
				for _, o := range obs {
					if o.Status != "discharged" {
						bad = true
						if len(r.Keys[id]) < 3 {
							r.Keys[id] = append(r.Keys[id], o.Key)
						}
					}
				}
				if bad {
					r.Flagged = append(r.Flagged, id)
				}
			}
		}()
		enc.Encode(r)
	}
	return 0
}

// runHarness generates variants for the files of a property, evaluates them in parallel child
// processes, and returns the results.
func runHarness(repo, verif, propID string, seed, max int, allProps bool) (results []variantResult, generated int, err error) {
	p, err := an.Load(repo, nil, "")
	if err != nil {
		return nil, 0, err
	}
	files := map[string]bool{}
	if b, e := os.ReadFile(filepath.Join(verif, "properties.jsonl")); e == nil {
		for _, line := range bytes.Split(b, []byte("\n")) {
			var rec struct {
				ID      string `json:"id"`
				Anchors struct {
					Files []string `json:"files"`
				} `json:"anchors"`
			}
			if json.Unmarshal(line, &rec) == nil && rec.ID == propID {
				for _, f := range rec.Anchors.Files {
					files[f] = true
				}
			}
		}
	}
	vs := genVariants(p, files)
	if harnessKind != "" {
		var f []variant
		for _, v := range vs {
			if v.Kind == harnessKind {
				f = append(f, v)
			}
		}
		vs = f
	}
	generated = len(vs)
	// deterministic sample
	sort.Slice(vs, func(i, j int) bool {
		if vs[i].Pos != vs[j].Pos {
			return vs[i].Pos < vs[j].Pos
		}
		return vs[i].Op+vs[i].Desc < vs[j].Op+vs[j].Desc
	})
	if max > 0 && len(vs) > max {
		// spread: take every k-th, rotated by the seed
		k := float64(len(vs)) / float64(max)
		var pick []variant
		for i := 0; i < max; i++ {
			pick = append(pick, vs[(int(float64(i)*k)+seed)%len(vs)])
		}
		vs = pick
	}
	const batch = 8
	tmp, _ := os.MkdirTemp("", "bbharness")
	defer os.RemoveAll(tmp)
	self, _ := os.Executable()
	var mu sync.Mutex
	sem := make(chan struct{}, 12)
	var wg sync.WaitGroup
	for i := 0; i < len(vs); i += batch {
		j := i + batch
		if j > len(vs) {
			j = len(vs)
		}
		spec := filepath.Join(tmp, fmt.Sprintf("spec%d.json", i))
		b, _ := json.Marshal(vs[i:j])
		os.WriteFile(spec, b, 0o644)
		wg.Add(1)
		sem <- struct{}{}
		go func(spec string) {
			defer wg.Done()
			defer func() { <-sem }()
			args := []string{"variant", "-file", spec, "-repo", repo}
			if !allProps {
				args = append(args, "-prop", propID)
			}
			out, _ := exec.Command(self, args...).Output()
			dec := json.NewDecoder(bytes.NewReader(out))
			for {
				var r variantResult
				if dec.Decode(&r) != nil {
					break
				}
				mu.Lock()
				results = append(results, r)
				mu.Unlock()
			}
		}(spec)
	}
	wg.Wait()
	sort.Slice(results, func(i, j int) bool { return results[i].V.Pos+results[i].V.Desc < results[j].V.Pos+results[j].V.Desc })
	return results, generated, nil
}
