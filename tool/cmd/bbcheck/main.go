// bbcheck decides the go-bigbuff properties C01..C20 by static analysis of /repo's current
// working tree. It never executes library code.
//
//	bbcheck check  -prop C04 [-tier quick|thorough] [-repo /repo] [-verif /verif]
//	bbcheck replay -prop C04 -file /verif/evidence/violations/C04-....json
//	bbcheck dump   [-v]            (all E1 obligations, for development)
package main

import (
	"encoding/json"
	"flag"
	"fmt"
	"os"
	"path/filepath"
	"sort"
	"strconv"
	"strings"
	"time"

	"bbcheck/internal/an"
	"bbcheck/internal/norm"
	"bbcheck/internal/props"
)

type finding struct {
	Status   string `json:"status"` // finding | fixed
	Property string `json:"property"`
	Key      string `json:"key"`
	Commit   string `json:"commit,omitempty"`
	What     string `json:"what"`
	Line     string `json:"line"`
}

type findingsFile struct {
	Findings []finding `json:"findings"`
}

func main() {
	if len(os.Args) < 2 {
		fmt.Println("usage: bbcheck check|replay|dump|list ...")
		os.Exit(2)
	}
	defer func() {
		if r := recover(); r != nil {
			fmt.Fprintf(os.Stderr, "bbcheck: internal error (analysis could not run): %v\n", r)
			panic(r)
		}
	}()
	cmd := os.Args[1]
	fs := flag.NewFlagSet(cmd, flag.ExitOnError)
	prop := fs.String("prop", "", "property id")
	tier := fs.String("tier", "quick", "quick|thorough")
	repo := fs.String("repo", "/repo", "repository directory")
	verif := fs.String("verif", "/verif", "verif directory")
	file := fs.String("file", "", "replay file")
	verbose := fs.Bool("v", false, "verbose")
	max := fs.Int("max", 0, "harness: maximum number of variants (0 = all)")
	allp := fs.Bool("allprops", false, "harness: evaluate every property on each variant")
	kind := fs.String("kind", "", "harness: only sens / inv variants")
	fs.Parse(os.Args[2:])
	if e := os.Getenv("BB_REPO"); e != "" {
		*repo = e
	}
	switch cmd {
	case "list":
		var out []map[string]string
		for _, id := range props.IDs() {
			p := props.Get(id)
			out = append(out, map[string]string{"id": id, "technique": p.Technique, "explanation": p.Explanation, "not_decided": p.NotDecided})
		}
		b, _ := json.MarshalIndent(out, "", " ")
		fmt.Println(string(b))
	case "dump":
		dump(*repo, *verbose)
	case "decls":
		printDecls(*repo)
	case "norm":
		// shows what the un-extraction pre-pass does on the current tree
		ov, notes, err := norm.Normalize(*repo, norm.Known, an.LoadEnv(""))
		for _, n := range notes {
			fmt.Println("NOTE:", n)
		}
		if err != nil {
			fmt.Println("ERROR:", err)
		}
		for f, b := range ov {
			fmt.Println("==== overlay", f)
			if *verbose {
				fmt.Println(string(b))
			}
		}
	case "funcs":
		ctx, err := loadAll(*repo, "")
		if err != nil {
			fmt.Println("LOAD ERROR:", err)
			os.Exit(2)
		}
		for _, fn := range ctx.P.Funcs {
			fmt.Println(an.FuncName(fn))
		}
	case "names":
		// closure naming: x/tools ordinal name -> role-based name used by the tables
		ctx, err := loadAll(*repo, "")
		if err != nil {
			fmt.Println("LOAD ERROR:", err)
			os.Exit(2)
		}
		for _, fn := range ctx.P.Funcs {
			if fn.Parent() != nil {
				fmt.Printf("%s\t%s\n", an.OrdinalName(fn), an.FuncName(fn))
			}
		}
	case "variant":
		var only []string
		if *prop != "" {
			only = strings.Split(*prop, ",")
		}
		os.Exit(runVariantChild(*repo, *file, only))
	case "harness":
		harnessKind = *kind
		res, gen, err := runHarness(*repo, *verif, *prop, 0, *max, *allp)
		if err != nil {
			fmt.Println("harness:", err)
			os.Exit(2)
		}
		printHarness(*prop, res, gen, *verbose)
	case "keys":
		// prints every obligation key per property (for DESIGN.md / notes)
		ctx, err := loadAll(*repo, "")
		if err != nil {
			fmt.Println("LOAD ERROR:", err)
			os.Exit(2)
		}
		for _, id := range props.IDs() {
			ctx.C = an.NewCollector(ctx.P)
			obs := props.Get(id).Build(ctx)
			byRule := map[string]int{}
			for _, o := range obs {
				byRule[o.Rule]++
			}
			var rs []string
			for r, n := range byRule {
				rs = append(rs, fmt.Sprintf("%s:%d", r, n))
			}
			sort.Strings(rs)
			fmt.Printf("## %s  (%d obligations; %s)\n", id, len(obs), strings.Join(rs, " "))
			for _, o := range obs {
				fmt.Printf("- %s\n", o.Key)
			}
		}
	case "orphans":
		// development aid: E1 obligations that no property selects
		ctx, err := loadAll(*repo, "")
		if err != nil {
			fmt.Println("LOAD ERROR:", err)
			os.Exit(2)
		}
		used := map[string]bool{}
		for _, id := range props.IDs() {
			ctx.C = an.NewCollector(ctx.P)
			for _, o := range props.Get(id).Build(ctx) {
				used[o.Key] = true
			}
		}
		for _, o := range ctx.SimObs {
			if !used[o.Key] {
				fmt.Println(o.Key)
			}
		}
	case "all":
		// development aid: one load, every property; prints the violated obligation keys per property
		ctx, err := loadAll(*repo, "")
		if err != nil {
			fmt.Println("LOAD ERROR:", err)
			os.Exit(2)
		}
		for _, id := range props.IDs() {
			pr := props.Get(id)
			ctx.C = an.NewCollector(ctx.P)
			obs := pr.Build(ctx)
			var bad []string
			for _, f := range pr.Floors {
				n := 0
				for _, o := range obs {
					if f.Match(o) {
						n++
					}
				}
				if n < f.Min {
					bad = append(bad, "FLOOR:"+f.Desc)
				}
			}
			for _, o := range obs {
				if o.Status != "discharged" {
					bad = append(bad, o.Key)
				}
			}
			fmt.Printf("%s %d %s\n", id, len(bad), strings.Join(bad, " ;; "))
		}
	case "check":
		os.Exit(check(*prop, *tier, *repo, *verif, ""))
	case "replay":
		b, err := os.ReadFile(*file)
		if err != nil {
			fmt.Println("replay:", err)
			os.Exit(2)
		}
		var rp struct {
			Property string `json:"property"`
			Key      string `json:"key"`
		}
		json.Unmarshal(b, &rp)
		if *prop == "" {
			*prop = rp.Property
		}
		os.Exit(check(*prop, *tier, *repo, *verif, rp.Key))
	default:
		fmt.Println("unknown command", cmd)
		os.Exit(2)
	}
}

// normNotes records what the un-extraction pre-pass did on the last load (reported in the evidence).
var normNotes []string

func loadAll(repo, arch string) (*props.Ctx, error) {
	// pre-pass: calls of helpers that did not exist when the tables were confirmed are inlined back (source level)
	overlay, notes, nerr := norm.Normalize(repo, norm.Known, an.LoadEnv(arch))
	if nerr != nil {
		return nil, nerr
	}
	normNotes = notes
	an.KnownFuncs = props.KnownFuncs
	an.KnownGoTargets = props.KnownGoTargets
	p, err := an.Load(repo, overlay, arch)
	if err != nil {
		return nil, err
	}
	if p.Files < 15 {
		return nil, fmt.Errorf("only %d library files loaded (expected >= 15)", p.Files)
	}
	s, err := an.NewSim(p, props.E1Tables())
	if err != nil {
		return nil, err
	}
	s.AddAPIRoots()
	s.Run()
	ctx := &props.Ctx{P: p, Sim: s, C: an.NewCollector(p)}
	var keys []string
	for k := range s.Obs {
		keys = append(keys, k)
	}
	sort.Strings(keys)
	for _, k := range keys {
		ctx.SimObs = append(ctx.SimObs, an.FromOb(s.Obs[k]))
	}
	ctx.SimObs = append(ctx.SimObs, an.OrderObligations(s)...)
	for _, e := range s.Errors {
		ctx.SimObs = append(ctx.SimObs, &an.Oblig{Rule: "ANCHOR", Func: "-", Subject: e, Key: "ANCHOR/-/" + e, Status: "undecided", Detail: e})
	}
	return ctx, nil
}

func check(id, tier, repo, verif, onlyKey string) int {
	start := time.Now()
	pr := props.Get(id)
	if pr == nil {
		fmt.Printf("bbcheck: property %s is not claimed by this checker\n", id)
		return 2
	}
	seed, _ := strconv.Atoi(os.Getenv("VERIF_SEED"))
	archs := []string{""}
	if tier == "thorough" {
		archs = []string{"", "386", "arm64"}
	}
	var all []*an.Oblig
	var stats []map[string]any
	var floorFails []string
	for _, arch := range archs {
		ctx, err := loadAll(repo, arch)
		if err != nil {
			fmt.Printf("bbcheck: cannot analyse %s (GOARCH=%q): %v\n", repo, arch, err)
			if strings.HasPrefix(err.Error(), "anchor:") {
				// the package compiles but a field the frozen tables name is gone: the representation changed and the
				// rules anchored on it cannot decide - reported as a violation of the analysis' precondition, not skipped
				os.MkdirAll(filepath.Join(verif, "evidence", "violations"), 0o755)
				rp := filepath.Join(verif, "evidence", "violations", fmt.Sprintf("%s-00.json", id))
				b, _ := json.MarshalIndent(map[string]any{"property": id, "key": "ANCHOR/tables/" + err.Error(), "status": "undecided", "rule": "ANCHOR",
					"detail": "a field named by the frozen tables no longer exists (" + err.Error() + "): the tables must be re-confirmed against the source before any rule can decide",
					"replay": "cd /verif && ./check.sh --replay " + rp}, "", " ")
				os.WriteFile(rp, b, 0o644)
				fmt.Printf("  UNDECIDED ANCHOR/tables: %v\n", err)
				fmt.Printf("VIOLATION property=%s replay=%s\n", id, rp)
				return 1
			}
			return 2
		}
		obs := pr.Build(ctx)
		if tier == "thorough" && arch == "" {
			// resolution cross-check: every dynamic call the inliner resolved must be a VTA callee of that site
			n, dis := an.VTACrossCheck(ctx.Sim)
			for _, d := range dis {
				obs = append(obs, &an.Oblig{Rule: "VTA", Func: "-", Subject: d, Key: "VTA/-/" + d, Status: "undecided", Detail: "call-resolution cross-check: " + d})
			}
			obs = append(obs, &an.Oblig{Rule: "VTA", Func: "-", Subject: "resolved dynamic calls agree with the VTA call graph", Key: "VTA/-/summary", Status: "discharged", Instances: n,
				Witness: fmt.Sprintf("%d resolved dynamic call sites (interface invokes on package interfaces, cell-held closures, func variables) are VTA callees of their sites", n)})
		}
		tag := ""
		if arch != "" {
			tag = " [GOARCH=" + arch + "]"
		}
		// floors (anti-vacuity)
		for _, f := range pr.Floors {
			n := 0
			for _, o := range obs {
				if f.Match(o) {
					n++
				}
			}
			if n < f.Min {
				floorFails = append(floorFails, fmt.Sprintf("%s: %d matched, at least %d required%s", f.Desc, n, f.Min, tag))
				obs = append(obs, &an.Oblig{Rule: "FLOOR", Func: "-", Subject: f.Desc, Key: "FLOOR/-/" + f.Desc, Status: "undecided",
					Detail: fmt.Sprintf("anti-vacuity floor: rule row %q matched %d sites, at least %d were confirmed by hand; an anchor no longer resolves or the table must be re-confirmed%s", f.Desc, n, f.Min, tag)})
			}
		}
		for _, o := range obs {
			if arch != "" {
				c := *o
				c.Key += tag
				all = append(all, &c)
			} else {
				all = append(all, o)
			}
		}
		stats = append(stats, map[string]any{"goarch": pick(arch, "default"), "functions": len(ctx.P.Funcs), "files": ctx.P.Files,
			"roots": ctx.Sim.NRoots, "frames": ctx.Sim.NFrames, "ssa_instructions_stepped": ctx.Sim.NInstr, "abstract_states": ctx.Sim.NStates,
			"functions_simulated": len(ctx.Sim.FuncsSeen)})
	}
	// known findings
	var ff findingsFile
	if b, err := os.ReadFile(filepath.Join(verif, "known_findings.json")); err == nil {
		json.Unmarshal(b, &ff)
	}
	violations := 0
	discharged := 0
	nontrivial := map[string]bool{}
	var viols []*an.Oblig
	for _, o := range all {
		if onlyKey != "" && !strings.HasPrefix(o.Key, onlyKey) {
			continue
		}
		switch o.Status {
		case "discharged":
			discharged++
			if o.Witness != "" && o.Instances > 0 {
				nontrivial[o.Key] = true
			}
		default:
			known := false
			for _, f := range ff.Findings {
				if f.Status == "finding" && f.Property == id && strings.HasPrefix(o.Key, f.Key) {
					known = true
					fmt.Printf("KNOWN-FINDING: property=%s %s\n", id, f.What)
				}
			}
			if !known {
				violations++
				viols = append(viols, o)
			}
		}
	}
	// evidence
	os.MkdirAll(filepath.Join(verif, "evidence", "violations"), 0o755)
	for i, o := range viols {
		rp := filepath.Join(verif, "evidence", "violations", fmt.Sprintf("%s-%02d.json", id, i))
		b, _ := json.MarshalIndent(map[string]any{"property": id, "key": o.Key, "status": o.Status, "rule": o.Rule, "func": o.Func,
			"subject": o.Subject, "detail": o.Detail, "pos": o.Pos, "contexts": o.Contexts,
			"replay": "cd /verif && ./check.sh --replay " + rp}, "", " ")
		os.WriteFile(rp, b, 0o644)
		where := "-"
		if len(o.Pos) > 0 {
			where = o.Pos[0]
		}
		fmt.Printf("  %s %s at %s: %s\n", strings.ToUpper(o.Status), o.Key, where, o.Detail)
		fmt.Printf("VIOLATION property=%s replay=%s\n", id, rp)
	}
	if onlyKey != "" {
		for _, o := range all {
			if strings.HasPrefix(o.Key, onlyKey) && o.Status == "discharged" {
				fmt.Printf("  DISCHARGED %s: %s\n", o.Key, o.Witness)
			}
		}
		if violations > 0 {
			return 1
		}
		return 0
	}
	var harness map[string]any
	if tier == "thorough" {
		res, gen, herr := runHarness(repo, verif, id, seed, 96, true)
		if herr != nil {
			fmt.Println("CHECKER-NOTE harness could not run:", herr)
		} else {
			h := summarise(id, res, gen)
			own := 0
			for _, r := range res {
				if r.Compiled && r.V.Kind == "sens" {
					for _, f := range r.Flagged {
						if f == id {
							own++
						}
					}
				}
			}
			fmt.Printf("harness %s: %d single-site edits of the current tree generated in the property's files, %d evaluated, %d compiled; sensitivity: %d/%d flagged by some property (%d by %s itself); invariance: %d/%d verdict-preserving\n",
				id, h.Generated, h.Evaluated, h.Compiled, h.SensFlagged, h.SensTotal, own, id, h.InvStable, h.InvTotal)
			for _, g := range h.InvGaps {
				fmt.Println("CHECKER-NOTE invariance-gap", g)
			}
			for i, sv := range h.Survivors {
				if i < 12 {
					fmt.Println("CHECKER-NOTE sensitivity-gap (edit not flagged by any property; may be behaviour-preserving)", sv)
				}
			}
			byop := map[string]string{}
			for k, v := range h.ByOp {
				byop[k] = fmt.Sprintf("%d/%d", v[0], v[1])
			}
			harness = map[string]any{"generated": h.Generated, "evaluated": h.Evaluated, "compiled": h.Compiled,
				"sensitivity_flagged_by_any_property": h.SensFlagged, "sensitivity_flagged_by_this_property": own, "sensitivity_total": h.SensTotal,
				"invariance_stable": h.InvStable, "invariance_total": h.InvTotal, "by_operator": byop,
				"survivors_sample": firstN(h.Survivors, 20), "invariance_gaps": h.InvGaps,
				"note": "edits are generated from the current syntax tree, applied as in-memory overlays, type-checked and re-analysed; they never affect the verdict or the exit code"}
		}
	}
	samples := pickSamples(all, seed)
	ev := map[string]any{
		"property_id": id,
		"tier":        tier,
		"seed":        seed,
		"level":       "other",
		"wall_s":      time.Since(start).Seconds(),
		"violations":  violations,
		"assumptions": append([]string{
			"Go type checker and go/ssa (x/tools v0.29.0) represent the program faithfully",
			"the modelled semantics of sync, sync/atomic, context, time, reflect (DESIGN.md section 2.1 / A.3)",
			"callers obey the documented contracts (ChanPubSub/ChanCaster contract; first call on a zero Buffer precedes sharing; callbacks do not re-enter the same object)",
		}, pr.Trusted...),
		"coverage": map[string]any{
			"explanation": "Static analysis of the current source of " + repo + " (no execution). Decided: " + pr.Explanation +
				" NOT decided: " + pr.NotDecided,
			"obligations":         len(all),
			"discharged":          discharged,
			"evaluations":         len(all),
			"distinct_nontrivial": len(nontrivial),
			"rule": "one obligation = property/rule/construct (function + semantic subject), evaluated on every path and calling context of the SSA program; " +
				"non-trivial = discharged with a non-empty witness from at least one matched site; floors fail the check if a table row matches nothing",
			"samples":        samples,
			"checker_cmd":    "/verif/check.sh " + id + " " + tier,
			"trusted_base":   []string{"go/types", "golang.org/x/tools/go/ssa v0.29.0", "std-function model table", "reasoned exception tables in tool/internal/props"},
			"analysed":       stats,
			"normalisation":  normNotes,
			"floor_failures": floorFails,
			"harness":        harness,
			"exhaustive":     false,
		},
	}
	b, _ := json.MarshalIndent(ev, "", " ")
	if err := os.WriteFile(filepath.Join(verif, "evidence", id+".json"), b, 0o644); err != nil {
		fmt.Println("bbcheck: cannot write evidence:", err)
		return 2
	}
	fmt.Printf("bbcheck %s %s: %d obligations, %d discharged, %d violated/undecided, %.1fs\n", id, tier, len(all), discharged, violations, time.Since(start).Seconds())
	if violations > 0 {
		return 1
	}
	return 0
}

func pick(a, b string) string {
	if a != "" {
		return a
	}
	return b
}

func pickSamples(all []*an.Oblig, seed int) []any {
	var out []any
	seenRule := map[string]int{}
	// deterministic spread over rules, rotated by the seed
	n := len(all)
	if n == 0 {
		return []any{"(no obligations)"}
	}
	for i := 0; i < n && len(out) < 12; i++ {
		o := all[(i*7+seed)%n]
		if seenRule[o.Rule] >= 2 {
			continue
		}
		seenRule[o.Rule]++
		out = append(out, map[string]any{"key": o.Key, "status": o.Status, "witness": pick(o.Witness, o.Detail), "pos": o.Pos, "contexts": o.Contexts, "instances": o.Instances})
	}
	return out
}

func dump(repo string, verbose bool) {
	ctx, err := loadAll(repo, "")
	if err != nil {
		fmt.Println("LOAD ERROR:", err)
		os.Exit(2)
	}
	s := ctx.Sim
	bad := 0
	for _, o := range ctx.SimObs {
		if o.Status != "discharged" {
			bad++
		}
		if verbose || o.Status != "discharged" {
			tag := "ok "
			if o.Status != "discharged" {
				tag = "BAD"
			}
			fmt.Printf("%s %-90s n=%d %s %v\n", tag, o.Key, o.Instances, pick(o.Detail, o.Witness), o.Pos)
		}
	}
	fmt.Println("roots", s.NRoots, "frames", s.NFrames, "instrs", s.NInstr, "states", s.NStates, "obs", len(ctx.SimObs), "bad", bad)
	var un []string
	for _, fn := range ctx.P.Funcs {
		if !s.FuncsSeen[an.FuncName(fn)] {
			un = append(un, an.FuncName(fn))
		}
	}
	fmt.Println("unvisited:", un)
	if verbose {
		for _, b := range s.Blocked {
			fmt.Println("BLOCK", b.Func, b.Op, b.Pos, b.Held, "root:", b.Root)
		}
		for _, sp := range s.Spawns {
			fmt.Println("SPAWN", sp.Kind, sp.Func, "by", sp.Spawner, sp.Pos, sp.Held)
		}
	}
}

type harnessSummary struct {
	Generated, Evaluated, Compiled int
	SensTotal, SensFlagged         int
	InvTotal, InvStable            int
	Survivors, InvGaps             []string
	ByOp                           map[string][2]int
}

func summarise(prop string, res []variantResult, gen int) harnessSummary {
	h := harnessSummary{Generated: gen, Evaluated: len(res), ByOp: map[string][2]int{}}
	for _, r := range res {
		if !r.Compiled {
			continue
		}
		h.Compiled++
		flagged := len(r.Flagged) > 0
		c := h.ByOp[r.V.Kind+":"+r.V.Op]
		c[1]++
		if r.V.Kind == "sens" {
			h.SensTotal++
			if flagged {
				h.SensFlagged++
				c[0]++
			} else {
				h.Survivors = append(h.Survivors, r.V.Pos+" "+r.V.Op+": "+r.V.Desc)
			}
		} else {
			h.InvTotal++
			if !flagged {
				h.InvStable++
				c[0]++
			} else {
				k := ""
				for id, ks := range r.Keys {
					k += id + ": " + strings.Join(ks, ", ") + "; "
				}
				h.InvGaps = append(h.InvGaps, r.V.Pos+" "+r.V.Op+": "+r.V.Desc+" => "+k)
			}
		}
		h.ByOp[r.V.Kind+":"+r.V.Op] = c
	}
	return h
}

func printHarness(prop string, res []variantResult, gen int, verbose bool) {
	h := summarise(prop, res, gen)
	fmt.Printf("harness %s: generated %d, evaluated %d, compiled %d; sensitivity %d/%d flagged; invariance %d/%d stable\n", prop, h.Generated, h.Evaluated, h.Compiled, h.SensFlagged, h.SensTotal, h.InvStable, h.InvTotal)
	var ops []string
	for k := range h.ByOp {
		ops = append(ops, k)
	}
	sort.Strings(ops)
	for _, k := range ops {
		fmt.Printf("  %-28s %d/%d\n", k, h.ByOp[k][0], h.ByOp[k][1])
	}
	for _, g := range h.InvGaps {
		fmt.Println("CHECKER-NOTE invariance-gap", g)
	}
	if verbose {
		for _, s := range h.Survivors {
			fmt.Println("CHECKER-NOTE sensitivity-gap", s)
		}
	}
}

func firstN(a []string, n int) []string {
	if len(a) > n {
		return a[:n]
	}
	return a
}
