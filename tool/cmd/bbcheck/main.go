package main

import (
	"fmt"
	"os"
	"sort"

	"bbcheck/internal/an"
	"bbcheck/internal/props"
)

func main() {
	dir := "/repo"
	if d := os.Getenv("BB_REPO"); d != "" {
		dir = d
	}
	p, err := an.Load(dir, nil, "")
	if err != nil {
		fmt.Println("LOAD ERROR:", err)
		os.Exit(2)
	}
	fmt.Println("funcs:", len(p.Funcs), "files:", p.Files)
	s, err := an.NewSim(p, props.E1Tables())
	if err != nil {
		fmt.Println("ANCHOR ERROR:", err)
		os.Exit(2)
	}
	s.AddAPIRoots()
	s.Run()
	var keys []string
	for k := range s.Obs {
		keys = append(keys, k)
	}
	sort.Strings(keys)
	bad := 0
	for _, k := range keys {
		o := s.Obs[k]
		st := "ok "
		if o.Violated {
			st = "BAD"
			bad++
		}
		if len(os.Args) > 1 && os.Args[1] == "-v" || o.Violated {
			fmt.Printf("%s %-90s n=%d %s\n", st, k, o.Instances, pickS(o.Fail, o.Witness))
			if o.Violated {
				fmt.Println("      at", o.FailPos)
			}
		}
	}
	var ek []string
	for k := range s.Edges {
		ek = append(ek, k)
	}
	sort.Strings(ek)
	for _, k := range ek {
		fmt.Println("EDGE", k, s.Edges[k].Pos, s.Edges[k].Func)
	}
	fmt.Println("roots", s.NRoots, "frames", s.NFrames, "instrs", s.NInstr, "states", s.NStates, "obs", len(keys), "bad", bad)
	for _, e := range s.Errors {
		fmt.Println("ERR", e)
	}
	var un []string
	for _, fn := range p.Funcs {
		if !s.FuncsSeen[an.FuncName(fn)] {
			un = append(un, an.FuncName(fn))
		}
	}
	fmt.Println("unvisited:", un)
}

func pickS(a, b string) string {
	if a != "" {
		return a
	}
	return b
}
