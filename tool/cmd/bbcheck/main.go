package main

import (
	"fmt"

	"golang.org/x/tools/go/packages"
	"golang.org/x/tools/go/ssa"
	"golang.org/x/tools/go/ssa/ssautil"
)

func main() {
	cfg := &packages.Config{Mode: packages.LoadAllSyntax, Dir: "/repo"}
	pkgs, err := packages.Load(cfg, "./...")
	if err != nil {
		panic(err)
	}
	prog, spkgs := ssautil.AllPackages(pkgs, ssa.BuilderMode(0))
	prog.Build()
	fmt.Println(len(pkgs), len(spkgs))
}
